"""pytest plugin: record every WorkflowConductor the repository's own tests drive.

Loaded with  `-p harness.testrec`  (PYTHONPATH=/verif, cwd=/repo).  No change to /repo is needed:
in a sequential library the linearization point of an action is the return of the public call, and
the conductor exposes its whole abstract state (DESIGN.md 4.3).  Each top-level call of

    request_workflow_status / get_next_tasks / update_task_state / request_workflow_rerun /
    render_workflow_output

becomes one step {"call", "ret", "obs"} in the format of harness/real.py, so that the
definition-independent clauses of spec/Props.tla can be evaluated on it by spec/TestTrace.tla.
After every call that is not itself a query the recorder asks a *deep copy* of the conductor for
its next tasks (twice, for C19_idem) - the test's own object is never touched.

State changes made behind the API (tests poke workflow_state directly) are detected by a digest
comparison and recorded as a "tamper" step, at which the validator restarts its monitors.
"""

import copy
import hashlib
import json
import os

from orquesta import conducting

from . import real as R

OUTDIR = os.environ.get("VERIF_REC_DIR")
CUR = {"test": None}
TRACES = []
DEPTH = [0]
WC = conducting.WorkflowConductor
MAX_STEPS = 400


def _digest(c):
    try:
        s = c.serialize()
        s.pop("spec", None)
        return hashlib.sha1(json.dumps(s, sort_keys=True, default=str).encode()).hexdigest()
    except Exception as e:
        return "unserialisable:" + type(e).__name__


def _acts(c):
    """what the conductor itself believes to be out at the provider: (task, route, item) -> status"""
    ws = c.workflow_state
    acts = {}
    latest = {}
    for i, e in enumerate(ws.sequence):
        latest[(e["id"], e["route"])] = e
    for (t, r), e in latest.items():
        st = e.get("status")
        if st is None:
            continue
        staged = [s for s in ws.staged if s["id"] == t and s["route"] == r and "items" in s]
        if staged and staged[0].get("items"):
            for k, it in enumerate(staged[0]["items"]):
                if it.get("status") is not None:
                    acts[(t, r, k)] = it["status"]
        else:
            acts[(t, r, -1)] = st
    return acts


def _project(c, offers):
    fake = R.Real.__new__(R.Real)
    fake.c = c
    fake.acts = _acts(c)
    return fake.project(offers)


def _offers(tasks):
    fake = R.Real.__new__(R.Real)
    return fake._offers(tasks)


def _copy(c):
    """deep copy that preserves aliasing inside the state and shares the immutable spec"""
    nc = WC.__new__(WC)
    memo = {id(c): nc}
    for k, v in c.__dict__.items():
        if k in ("spec", "catalog", "spec_module", "composer"):
            nc.__dict__[k] = v
        elif k == "_vrec":
            continue
        else:
            nc.__dict__[k] = copy.deepcopy(v, memo)
    return nc


def _shadow(c):
    """offers of a copy of the conductor, asked twice; -> (ret, offers, offers2, pers2)"""
    try:
        cp = _copy(c)
    except Exception as e:
        return None
    try:
        d0 = _digest(cp)
        r1 = cp.get_next_tasks()
        o1 = _offers(r1)
        d1 = _digest(cp)
        if d1 != d0:
            # the query changed the copy (a task failed to render and failed the workflow, or with-items
            # were initialised): its answer does not describe the test's own, unqueried conductor
            return None
        r2 = cp.get_next_tasks()
        return "ok", o1, _offers(r2), d1 == _digest(cp)
    except Exception as e:
        return type(e).__name__, [], [], True


def _spec_struct(c):
    """structure of the definition: tasks, join, with-items, transitions' target lists"""
    out = {}
    try:
        tasks = c.spec.tasks
        for name in sorted(tasks.keys()):
            t = tasks[name]
            join = getattr(t, "join", None)
            nxt = []
            for n in (getattr(t, "next", None) or []):
                do = getattr(n, "do", None)
                if isinstance(do, str):
                    do = [x.strip() for x in do.split(",") if x.strip()]
                nxt.append(list(do or []))
            w = getattr(t, "with", None)
            out[name] = {"join": join if isinstance(join, int) else (-1 if join == "all" else None if join is None else -3),
                         "items": w is not None, "retry": getattr(t, "retry", None) is not None, "next": nxt}
    except Exception as e:
        return {"error": type(e).__name__}
    return out


def _trace_of(c):
    tr = c.__dict__.get("_vrec")
    if tr is None or tr["owner"] != id(c):
        steps = list(tr["steps"]) if tr is not None else []
        tr = {"owner": id(c), "test": CUR["test"], "steps": steps, "last": tr["last"] if tr is not None else None,
              "spec": _spec_struct(c), "forked": tr is not None}
        c.__dict__["_vrec"] = tr
        TRACES.append(tr)
        if not steps:
            DEPTH[0] += 1
            try:
                sh = _shadow(c)
                obs = _project(c, None)
                tr["steps"].append({"call": R.Real.mkcall("new"), "ret": "ok", "obs": obs, "offers2": [], "pers2": True})
                _add_shadow(tr, c, sh)
                tr["last"] = _digest(c)
            finally:
                DEPTH[0] -= 1
    return tr


def _add_shadow(tr, c, sh):
    if sh is None:
        return
    ret, o1, o2, p2 = sh
    tr["steps"].append({"call": R.Real.mkcall("query", arg=[["shadow"]]), "ret": ret, "obs": _project(c, o1),
                        "offers2": o2, "pers2": bool(p2)})


def _wrap(name, mk):
    orig = getattr(WC, name)

    def w(self, *a, **k):
        if DEPTH[0] > 0 or "performance" in (CUR["test"] or ""):
            return orig(self, *a, **k)
        old = self.__dict__.get("_vrec")
        if old is not None and len(old["steps"]) > MAX_STEPS:       # stress-sized histories are not recorded further
            old["capped"] = True
            return orig(self, *a, **k)
        try:
            tr = _trace_of(self)
            DEPTH[0] += 1
            try:
                if tr["last"] is not None and _digest(self) != tr["last"]:
                    tr["steps"].append({"call": R.Real.mkcall("tamper"), "ret": "ok", "obs": _project(self, None),
                                        "offers2": [], "pers2": True})
                call = mk(*a, **k)
            finally:
                DEPTH[0] -= 1
        except Exception as e:          # the recorder must never break a test
            tr, call = None, None
        DEPTH[0] += 1
        ret, res = "ok", None
        try:
            res = orig(self, *a, **k)
            return res
        except Exception as e:
            ret = type(e).__name__
            raise
        finally:
            try:
                if tr is not None and call is not None:
                    offers = None
                    if call["op"] == "query":
                        offers = _offers(res) if ret == "ok" else []
                        sh = _shadow(self) if ret == "ok" else None
                        step = {"call": call, "ret": ret, "obs": _project(self, offers),
                                "offers2": sh[1] if sh else offers, "pers2": bool(sh[3]) if sh else True}
                        if sh and sh[0] != "ok":
                            step["offers2"] = offers
                        tr["steps"].append(step)
                    else:
                        tr["steps"].append({"call": call, "ret": ret, "obs": _project(self, None),
                                            "offers2": [], "pers2": True})
                        _add_shadow(tr, self, _shadow(self))
                    tr["last"] = _digest(self)
            except Exception as e:
                if tr is not None:
                    tr["broken"] = "%s: %s" % (type(e).__name__, e)
            DEPTH[0] -= 1

    w.__name__ = name
    setattr(WC, name, w)


def _mk_req(status=None, *a, **k):
    return R.Real.mkcall("req", st=str(status if status is not None else k.get("status")))


def _mk_query(*a, **k):
    return R.Real.mkcall("query")


def _mk_report(task_id=None, route=None, event=None, *a, **k):
    task_id = task_id if task_id is not None else k.get("task_id")
    route = route if route is not None else k.get("route")
    event = event if event is not None else k.get("event")
    item = getattr(event, "item_id", None)
    if item is None:
        ctx = getattr(event, "context", None)
        if isinstance(ctx, dict) and isinstance(ctx.get("item_id"), int):
            item = ctx["item_id"]
    return R.Real.mkcall("report", task=str(task_id), route=route if isinstance(route, int) else -9,
                         item=item if isinstance(item, int) else -1, st=str(getattr(event, "status", "none")),
                         res=getattr(event, "result", None), acc=getattr(event, "accumulated_result", None),
                         arg=[[type(event).__name__]])


def _mk_rerun(task_requests=None, *a, **k):
    reqs = task_requests if task_requests is not None else k.get("task_requests")
    arg = []
    for q in (reqs or []):
        arg.append([str(getattr(q, "task_id", "?")), getattr(q, "route", 0) if isinstance(getattr(q, "route", 0), int) else -9,
                    1 if getattr(q, "reset_items", False) else 0])
    return R.Real.mkcall("rerun", arg=arg)


def _mk_render(*a, **k):
    return R.Real.mkcall("render")


_wrap("request_workflow_status", _mk_req)
_wrap("get_next_tasks", _mk_query)
_wrap("update_task_state", _mk_report)
_wrap("request_workflow_rerun", _mk_rerun)
_wrap("render_workflow_output", _mk_render)


def pytest_runtest_setup(item):
    CUR["test"] = item.nodeid


def pytest_sessionfinish(session, exitstatus):
    if not OUTDIR:
        return
    os.makedirs(OUTDIR, exist_ok=True)
    out = []
    for tr in TRACES:
        out.append({"test": tr["test"], "spec": tr["spec"], "steps": tr["steps"], "forked": tr["forked"],
                    "broken": tr.get("broken"), "capped": tr.get("capped", False)})
    with open(os.path.join(OUTDIR, "traces.%d.json" % os.getpid()), "w") as f:
        json.dump(out, f, separators=(",", ":"), default=str)
