"""Exploration of the *implementation*: DFS over the provider's choices on the real conductor.

The result is a trace tree: nodes are API-call steps ({"p": parent, "call", "ret", "obs"}), node 0 is
the virtual root.  `env` bounds the environment:

  pause / cancel : number of pause (each with its resume) and cancel requests that may be placed
  resume_early   : also offer `resuming` while still `pausing`
  persist        : number of persist/restore points that may be placed
  probe_reqs     : at every node try every status request on a copy and record it as a leaf step
  rerun          : offer a default rerun (and single-task reruns) at failed resting leaves, that many times
  lazy           : offered tasks are started by explicit choices instead of at once
  max_nodes / max_depth : hard caps (the tree is then marked truncated)
"""

import random

from .real import Real, ACTIVE_ACTION

REQS = ("running", "pausing", "paused", "resuming", "canceling", "canceled", "failed")
COMPLETED = ("succeeded", "failed", "timeout", "abandoned", "canceled")


class Tree(object):
    def __init__(self, d, meta=None):
        self.d = d
        self.nodes = [None]          # index 0 = virtual root
        self.meta = meta or {}
        self.truncated = False
        self.leaves = 0
        self.fins = {}               # leaf node -> final observation (Real.fin)

    def add(self, parent, step, choice=None):
        n = dict(step)
        n["p"] = parent
        if choice is not None:
            n["ch"] = choice
        self.nodes.append(n)
        return len(self.nodes) - 1

    def add_steps(self, parent, steps, choice):
        cur = parent
        for i, s in enumerate(steps):
            cur = self.add(cur, s, choice if i == 0 else None)
        return cur

    def path(self, n):
        out = []
        while n:
            out.append(n)
            n = self.nodes[n]["p"]
        return list(reversed(out))

    def schedule(self, n):
        return [self.nodes[i]["ch"] for i in self.path(n) if "ch" in self.nodes[i]]

    def to_json(self, tid):
        kids = [[] for _ in self.nodes]
        for i, n in enumerate(self.nodes):
            if i:
                kids[n["p"]].append(i)
        nodes = []
        for i, n in enumerate(self.nodes):
            if i:
                m = {k: v for k, v in n.items() if k != "ch"}
                m["kids"] = kids[i]
                nodes.append(m)
        return {"tid": tid, "def": tla_def(self.d), "roots": kids[0], "nodes": nodes}


def tla_cond(c):
    if c in ("always", "succeeded", "failed", "completed", "default"):
        return {"k": c, "v": "", "n": 0}
    if c.startswith("res="):
        return {"k": "reseq", "v": "", "n": int(c[4:])}
    if c.startswith("lt:") or c.startswith("ge:"):
        op, v, k = c.split(":")
        return {"k": op, "v": v, "n": int(k)}
    return {"k": "bad", "v": c[4:], "n": 0}


def tla_val(e):
    if isinstance(e, int):
        return {"k": "c", "v": "", "n": e}
    if e.startswith("c:"):
        return {"k": "c", "v": "", "n": int(e[2:])}
    if e in ("res", "item"):
        return {"k": e, "v": "", "n": 0}
    if e.startswith("ctx:") or e.startswith("inc:"):
        return {"k": e[:3], "v": e[4:], "n": 0}
    return {"k": "bad", "v": e[4:], "n": 0}


def tla_def(d):
    """The definition in the uniform shape spec/Definition.tla reads."""
    tasks = {}
    for t, td in d["tasks"].items():
        r = td["retry"]
        bad = ""
        for k, nm in (("actionx", "action"), ("inputx", "input"), ("itemsx", "items"), ("concbad", "conc"), ("delayx", "delay")):
            if td.get(k):
                bad = nm
        rbad = "count" if r.get("countx") else ("delay" if r.get("delayx") else "")
        tasks[t] = {"join": td["join"], "items": td["items"], "conc": td["conc"],
                    "delay": td["delay"], "bad": bad, "rbad": rbad,
                    "retry": {"on": r["on"], "count": r["count"], "when": tla_cond(r["when"]),
                              "delay": r["delay"]},
                    "next": [{"when": tla_cond(n["when"]),
                              "pub": [[p[0], tla_val(p[1])] for p in n["pub"]],
                              "do": list(n["do"]) or ["continue"]} for n in td["next"]]}
    names = sorted(set(d["tasks"]) | {"continue", "fail", "noop", "retry"})
    return {"name": d["name"], "vars": [[v, tla_val(k)] for v, k in d["vars"]],
            "output": [[o[0], tla_val(o[1])] for o in d["output"]], "tasks": tasks,
            "fates": {t: list(d["fates"].get(t, ["s"])) for t in d["tasks"]},
            "rank": {n: i for i, n in enumerate(names)}}


def after_event(r, lazy=False):
    """The provider's reaction to any event: query (+ start everything), render on completion."""
    if lazy:
        r.query()
    else:
        r.settle()
    # the provider renders the output whenever the workflow is completed (after every event, as
    # StackStorm does; the conductor itself renders only while it has no output yet)
    if r.c.get_workflow_status() in COMPLETED:
        r.render()
        r.rendered = True


def apply_choice(r, ch, lazy=False):
    n0 = len(r.steps)
    op = ch[0]
    if op == "eager":            # a choice of a prefix that is applied with the eager discipline whatever the exploration uses
        return apply_choice(r, list(ch[1]), False)
    if op == "boot":
        r.new()
        r.req("running")
        r.started = True
    elif op == "rep":
        r.report(ch[1], ch[2], ch[3], ch[4])
    elif op == "req":
        st = r.req(ch[1])
        if ch[1] in ("resuming", "running") and st["ret"] == "ok" and r.started:
            # resuming the workflow cascades to the actions that are paused (as StackStorm does)
            for (t, rt, i), a in sorted(r.acts.items()):
                rec = r.c.get_task_state_entry(t, rt)
                if a == "paused" and not (rec is not None and rec.get("status") in COMPLETED):
                    r.report(t, rt, i, "resuming" if i < 0 else "running")
    elif op == "rerun":
        r.rerun(ch[1])
        r.rendered = False
    elif op == "persist":
        r.persist()
    elif op == "startb":
        t, rt, items = ch[1], ch[2], ch[3]
        if items:
            for i in items:
                r.start(t, rt, i)
        else:
            r.start(t, rt, -1)
        r.pending_offers = [o for o in r.__dict__.get("pending_offers", []) if (o[0], o[1]) != (t, rt)]
        return r.steps[n0:]
    else:
        raise ValueError(ch)
    after_event(r, lazy)
    if lazy:
        q = [s for s in r.steps[n0:] if s["call"]["op"] == "query"]
        offs = q[-1]["obs"]["offers"] if q else []
        r.pending_offers = [[o["id"], o["route"], o["items"]] for o in offs
                            if not (o["nitems"] == 0 and r.acts.get((o["id"], o["route"], -1)) in ACTIVE_ACTION)]
    return r.steps[n0:]


def choices(r, bud, env):
    wf = r.c.get_workflow_status()
    out = [["rep"] + c for c in r.report_choices(held=bud["resume"] > 0, canceled=bud.get("canceled", False))]
    if env.get("lazy"):
        for o in r.__dict__.get("pending_offers", []):
            out.append(["startb", o[0], o[1], o[2]])
    if bud["pause"] > 0 and wf in ("running", "resuming"):
        out.append(["req", "pausing"])
    if bud["resume"] > 0 and (wf == "paused" or (env.get("resume_early") and wf == "pausing")):
        out.append(["req", "resuming"])
    elif env.get("delayed") == "pending" and wf == "paused" and not r.acts_dormant():
        # an inquiry paused the workflow and has been answered: the provider resumes it (as StackStorm does)
        out.append(["req", "resuming"])
    if bud["cancel"] > 0 and wf in ("running", "pausing", "paused", "resuming"):
        out.append(["req", "canceling"])
    if bud["persist"] > 0:
        out.append(["persist"])
    if bud["rerun"] > 0 and wf in COMPLETED and not r.acts_inflight():
        out.append(["rerun", []])
        if env.get("rerun_multi"):
            failed = sorted({(e["id"], e["route"]) for e in r.c.workflow_state.sequence
                             if e["id"] in r.d["tasks"] and e.get("status") in ("failed", "timeout", "abandoned")})
            if len(failed) >= 2:
                out.append(["rerun", [[t, rt, 0] for t, rt in reversed(failed)]])
            if env.get("rerun_multi") == "all" and failed:
                # the failed executions together with the succeeded with-items executions
                okit = sorted({(e["id"], e["route"]) for e in r.c.workflow_state.sequence
                               if r.d["tasks"].get(e["id"], {}).get("items", -1) > 0 and e.get("status") == "succeeded"})
                if okit:
                    out.append(["rerun", [[t, rt, 0] for t, rt in failed + okit]])
                # every completed execution at once (the conductor collapses the requests)
                done = sorted({(e["id"], e["route"]) for e in r.c.workflow_state.sequence
                               if e["id"] in r.d["tasks"] and e.get("status") in COMPLETED})
                if len(done) >= 2:
                    out.append(["rerun", [[t, rt, 0] for t, rt in done]])
        if env.get("rerun_tasks"):
            seen = set()
            for e in r.c.workflow_state.sequence:
                k = (e["id"], e["route"])
                if k in seen or e["id"] in ("noop", "fail", "continue"):
                    continue
                seen.add(k)
                if e.get("status") in ("failed", "timeout", "abandoned") or (
                        env.get("rerun_tasks") == "all" and e.get("status") == "succeeded"):
                    out.append(["rerun", [[e["id"], e["route"], 0]]])
                    if r.d["tasks"].get(e["id"], {}).get("items", -1) > 0:
                        out.append(["rerun", [[e["id"], e["route"], 1]]])
    return out


def _inflight(self):
    return [k for k, st in self.acts.items() if st in ACTIVE_ACTION]


Real.acts_inflight = _inflight


def spend(bud, ch):
    b = dict(bud)
    if ch[0] == "req" and ch[1] == "pausing":
        b["pause"] -= 1
        b["resume"] += 1
    elif ch[0] == "req" and ch[1] == "resuming":
        b["resume"] -= 1
    elif ch[0] == "req" and ch[1] in ("canceling", "canceled"):
        b["cancel"] -= 1
        b["canceled"] = True
    elif ch[0] == "persist":
        b["persist"] -= 1
    elif ch[0] == "rerun":
        b["rerun"] -= 1
    return b


def explore(d, env=None, lang="yaql", form=0, tok="task", rng=None, inputs=None):
    env = env or {}
    tree = Tree(d, meta={"env": {k: v for k, v in env.items()}, "lang": lang, "tok": tok})
    max_nodes = env.get("max_nodes", 4000)
    max_depth = env.get("max_depth", 40)
    sample = env.get("sample")          # None = exhaustive; k = follow at most k random children
    bud0 = {"pause": env.get("pause", 0), "resume": 0, "cancel": env.get("cancel", 0),
            "persist": env.get("persist", 0), "rerun": env.get("rerun", 0)}
    r0 = Real(d, lang=lang, form=form, tok=tok, inputs=inputs)
    if env.get("persist_points") is not None:            # serialise + restore after these call ordinals (0 = right after construction)
        r0.persist_points = "all" if env["persist_points"] == "all" else set(env["persist_points"])
    r0.use_delayed = env.get("delayed") or False        # True: delayed tasks report `delayed` first; "all": every action reports `requested` first
    steps = apply_choice(r0, ["boot"], env.get("lazy") and not env.get("prefix"))
    n = tree.add_steps(0, steps, ["boot"])
    for ch in env.get("prefix", []):          # a fixed history the exploration starts from
        steps = apply_choice(r0, list(ch), env.get("lazy"))
        n = tree.add_steps(n, steps, list(ch))
    seen = set()
    stack = [(r0, n, bud0, 1)]
    while stack:
        r, node, bud, depth = stack.pop()
        k = (r.key(), tuple(sorted((a, int(b)) for a, b in bud.items())), tuple(map(tuple, map(str, r.__dict__.get("pending_offers", [])))))
        if k in seen:
            continue
        seen.add(k)
        if env.get("probe_reqs"):
            for s in REQS:
                c = r.clone()
                c.req(s)
                tree.add(node, c.steps[-1], ["probe", s])
        if env.get("probe_rerun"):
            recs = [(e["id"], e["route"]) for e in r.c.workflow_state.sequence if e["id"] in r.d["tasks"]]
            for req in [[]] + [[[t, rt, 0]] for t, rt in recs[:2]] + [[["no_such_task", 0, 0]]]:
                c = r.clone()
                c.rerun(req)
                tree.add(node, c.steps[-1], ["probe_rerun", req])
        ws_ = r.c.workflow_state
        if (len(ws_.sequence) > env.get("max_records", 120) or len(r.acts) > 64 or len(ws_.routes) > 48
                or sum(len(x) for x in ws_.routes) > 600
                # (several transitions between the same pair of tasks inside a cycle multiply the context index lists)
                or any(len(e["ctxs"]["in"]) > 150 for e in ws_.staged) or any(len(e["ctxs"]["in"]) > 150 for e in ws_.sequence[-8:])):
            # splits inside cycles multiply the executions without bound: such a history is cut (counted as truncated)
            tree.truncated = True
            continue
        chs = choices(r, bud, env)
        if not chs:
            tree.leaves += 1
            tree.fins[node] = r.fin()
            continue
        if depth >= max_depth or len(tree.nodes) >= max_nodes:
            tree.truncated = True
            continue
        if sample is not None and len(chs) > sample:
            chs = (rng or random).sample(chs, sample)
        for ch in reversed(chs):
            c = r.clone()
            c.rendered = r.__dict__.get("rendered", False)
            c.pending_offers = list(r.__dict__.get("pending_offers", []))
            steps = apply_choice(c, ch, env.get("lazy"))
            nn = tree.add_steps(node, steps, ch)
            stack.append((c, nn, spend(bud, ch), depth + 1))
    return tree


def run_schedule(d, schedule, lang="yaql", form=0, tok="task", lazy=False, inputs=None, delayed=False, persist_points=None):
    """Replay a list of choices (a `--replay` file, or a behaviour emitted by TLC) on a fresh
    conductor; returns the Real with its recorded steps."""
    r = Real(d, lang=lang, form=form, tok=tok, inputs=inputs)
    r.use_delayed = delayed or False
    if persist_points is not None:
        r.persist_points = "all" if persist_points == "all" else set(persist_points)
    for ch in schedule:
        apply_choice(r, ch, lazy)
    return r
