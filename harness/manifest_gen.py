"""Writes MANIFEST.json from one table, so the file stays valid and in step with the checks."""
import json
import os

ROOT = os.path.dirname(os.path.dirname(os.path.abspath(__file__)))

TRACE_NOTE = ("Trusted: TLC, the CommunityModules Json reader, harness/real.py (driver + projection + value "
              "encoder), the concretiser of abstract definitions, the disciplined provider model of DESIGN.md 2.2. "
              "Bounded: definitions from the generated families, <= 1 pause(+resume) and <= 1 cancel per history "
              "unless stated, trees capped (truncated trees are counted in the evidence).")

CHECKS = {
 "C01": ("model_checking", "Props token monitor (C01_* clauses, spec/Props.tla) evaluated by TLC on every step of every "
         "history of the real conductor explored exhaustively per definition (all outcome assignments x all report orders); "
         "Spec B (spec/Conductor.tla) model-checked with the same clauses.", "6 C01",
         "TLA+ monitor on TLC-validated implementation traces + TLC model checking of Spec B"),
 "C02": ("model_checking", "C02_* clauses (status truthful, doomed workflows fail) evaluated by TLC on every step of explored "
         "histories with every placement of pause/resume/cancel.", "6 C02",
         "TLA+ state/step clauses on TLC-validated implementation traces"),
 "C03": ("model_checking", "C03_rest evaluated by TLC at every quiescent point of the explored histories.", "6 C03",
         "TLA+ invariant on TLC-validated implementation traces"),
 "C04": ("model_checking", "C04_* clauses after the first terminal status + every status request probed in every reachable "
         "state (rejections must be pure).", "6 C04", "TLA+ action clauses on TLC-validated implementation traces"),
 "C06": ("model_checking", "Binding monitor (value, publisher, lineage) in Props computes the expected context of every offered task, every "
         "transition decision, every published delta and the output; Spec B model-checked with it; behaviours replayed.", "6 C06",
         "TLA+ data-flow monitor on TLC-validated implementation traces + TLC model checking of Spec B"),
 "C07": ("model_checking", "Join generation monitor (arrivals, fired, started) in Props; C07_safe/once/unreachable.", "6 C07",
         "TLA+ monitor on TLC-validated implementation traces"),
 "C05": ("model_checking", "Live run vs the same history with deserialize(serialize()) inserted after every call / random subsets / single "
         "points; C05_same_steps / same_final / idempotent evaluated by TLC (spec/Groups.tla) on the recorded twins; Persist is a stuttering step of Spec B.", "6 C05",
         "TLA+ relational check (Groups.tla) over twin runs of the real conductor"),
 "C08": ("model_checking", "All linearisations of each (acyclic definition, outcome per task) scenario explored on the real conductor; the "
         "terminal observations of one scenario are related by C08_* in spec/Groups.tla.", "6 C08",
         "TLA+ relational check over exhaustively explored report orders"),
 "C09": ("model_checking", "C09 step clauses on every call of histories with a pause at every position, Spec B model-checked with them, and each "
         "paused terminal run related to its de-paused twin by C09_same_* (spec/Groups.tla).", "6 C09",
         "TLA+ step clauses + relational twin check, TLC model checking of Spec B"),
 "C10": ("model_checking", "C10_* clauses with cancel requested at every position (from running, pausing, paused, resuming); Spec B model-checked with them.", "6 C10",
         "TLA+ clauses on TLC-validated implementation traces + TLC model checking of Spec B"),
 "C11": ("fault_enumeration", "12 expression positions x 4 failure kinds x 2 languages on a fork/join host; C11_* clauses (no escape, recorded "
         "with task/transition, workflow failed, nothing offered afterwards) on every call; Spec B models when each position is evaluated; "
         "conformance checked on the same traces.", "6 C11",
         "fault enumeration + TLA+ clauses on TLC-validated implementation traces + Spec B conformance"),
 "C12": ("model_checking", "With-items monitor (items started / last status per execution) in Props; C12_* clauses on every call; Spec B "
         "(with-items window, item-event contextualisation) model-checked with them and its behaviours replayed.", "6 C12",
         "TLA+ monitor on TLC-validated implementation traces + TLC model checking of Spec B"),
 "C13": ("model_checking", "Retry monitor (attempts per visit) in Props; C13_bound/cond/silent/delay; Spec B retry path model-checked and replayed.", "6 C13",
         "TLA+ monitor on TLC-validated implementation traces + TLC model checking of Spec B"),
 "C14": ("model_checking", "spec/Compose.tla: the composer's worklist algorithm as a TLA+ state machine, model-checked (safety + termination) against the "
         "declarative RefGraph for every definition of the family; the real composer's graph compared by TLC with RefGraph under permutations "
         "of the declaration order and across serialize/deserialize.", "6 C14", "TLC model checking of the composer algorithm + TLA+ relational check against the real composer"),
 "C15": ("fault_enumeration", "spec/Inspect.tla enumerates every single-fault mutant of the host definitions with the report it must produce; the real "
         "inspect() is run on each and C15_reported evaluated by TLC; soundness half: C15_internal_error on every call of sampled histories of accepted definitions.",
         "6 C15", "TLC-enumerated fault injection + TLA+ clause on every recorded call"),
 "C16": ("exploration", "spec/DataPath.tla enumerates the paths (injection stage x reference form x persist points); drawn JSON values are run through "
         "them on the real code with every stage logged type-tagged; C16_preserved / C16_pure / C16_hidden evaluated by TLC (spec/Groups.tla).", "6 C16",
         "TLC-enumerated paths + seeded value generation, TLA+ comparison of type-tagged stage logs"),
 "C17": ("model_checking", "Rerun clauses (accept, resuming, exact offers, no repeat, not stuck) on every call of histories that place a default or "
         "single-task rerun at every completed resting point; reruns whose re-executed actions succeed are related to the clean scenario's terminal "
         "observations (C17_converge, spec/Groups.tla).", "6 C17", "TLA+ monitor + relational check over rerun histories of the real conductor"),
 "C19": ("exploration", "C19_idem on every query step of sampled histories over all families; sampled complete histories replayed in one process per "
         "PYTHONHASHSEED and compared step by step by C19_same (spec/Groups.tla).", "6 C19", "TLA+ clause on recorded query steps + cross-process replay compared by TLC"),
 "C20": ("exploration", "spec/Params.tla enumerates parameter lists over the documented value classes, delimiters and positions plus the do/with/omitted-do "
         "shorthands; shorthand/longhand twins are parsed, composed, inspected and conducted on the real code; C20_same / C20_denote by TLC.", "6 C20",
         "TLC-enumerated notation cases, twin runs compared by TLA+ relations"),
 "C18": ("model_checking", "Append-only action properties over consecutive recorded states.", "6 C18",
         "TLA+ action properties on TLC-validated implementation traces"),
}

NOT_YET = {
}

ALL = ["C%02d" % i for i in range(1, 21)]


def main():
    checks = []
    for pid in ALL:
        if pid not in CHECKS:
            continue
        level, text, ref, tech = CHECKS[pid]
        checks.append({
            "property_id": pid,
            "quick_cmd": "./check %s --tier quick" % pid,
            "thorough_cmd": "./check %s --tier thorough" % pid,
            "evidence_file": "/verif/evidence/%s.json" % pid,
            "replay_cmd_template": "./check %s --replay {path}" % pid,
            "engine": "tlc-trace",
            "level_claimed": {"category": level, "text": text, "design_ref": "DESIGN.md section " + ref},
            "level_note": TRACE_NOTE,
            "technique": tech,
        })
    na = [{"property_id": p, "reason": NOT_YET.get(p, "check under construction in this round (see DESIGN.md 8.1); not claimed yet")}
          for p in ALL if p not in CHECKS]
    m = {
        "version": 1,
        "setup_cmd": "./setup.sh",
        "hooks": {"guard": "ORQUESTA_VERIF", "enable": "no source hooks: the conductor's serialize() exposes the abstract state; "
                  "checks import orquesta from /repo (PYTHONPATH) and wrap nothing inside it",
                  "baseline_off_cmd": "cd /repo && /venv/bin/python -m pytest -ra -q -p no:cacheprovider --timeout=900 --continue-on-collection-errors",
                  "source_commits": [], "add_only": True},
        "engines": [
            {"name": "tlc-trace", "path": "spec/Trace.tla", "serves_properties": sorted(CHECKS),
             "kind_free_text": "TLC evaluates the Props.tla monitors on trace trees recorded from the real conductor"},
        ],
        "checks": checks,
        "not_applicable": na,
        "notes": ("Verdict rule and known-findings policy: DESIGN.md sections 1 and 5. exit 2 = machinery failure (TLC crash, "
                  "node-count mismatch, a violation in the intended-design model, or a vacuous run: a situation the property is "
                  "about never occurred - Props.Triggers / pipeline.REQUIRED). Besides the per-property checks: `./check conform` "
                  "(Spec B vs the real conductor step by step, lifecycle tables cell by cell; must report divergences=0), "
                  "`./check selftest` (corrupted traces are rejected with the expected clause, a mutated specification diverges), "
                  "`./seedsweep.sh` (every kept seeded change against the current checks, on scratch worktrees). The quick tier "
                  "of C01-C04, C07, C09, C10, C18, C19 also validates traces recorded from the repository's own test suite "
                  "(harness/testrec.py, spec/TestTrace.tla); no hook in /repo is needed."),
    }
    with open(os.path.join(ROOT, "MANIFEST.json"), "w") as f:
        json.dump(m, f, indent=1)


if __name__ == "__main__":
    main()
