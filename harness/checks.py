"""Per-property check plans (what is explored for which property).  All oracles are in
spec/Props.tla; a plan only chooses families, environments and which clause prefixes it owns."""

import json
import os
import random

from . import families as F
from . import pipeline as P

REGISTRY = {}

ASSUME_COMMON = [
    "provider follows the disciplined whole-batch protocol of DESIGN.md 2.2 (eager unless stated)",
    "definitions are drawn from the abstract language of DESIGN.md App. B and concretised to YAQL/Jinja",
    "the projection harness/real.py:project and the value encoder are trusted",
    "TLC evaluates spec/Props.tla clauses on every recorded step (spec/Trace.tla)",
]


def reg(pid):
    def deco(fn):
        REGISTRY[pid] = fn
        return fn
    return deco


def jobs_for(defs, env, seed, langs=("yaql",), tok="task"):
    out = []
    for i, d in enumerate(defs):
        lang = langs[(i + seed) % len(langs)]
        out.append((d, env, lang, tok, seed * 100003 + i))
    return out


def sizes(tier, q, t):
    return q if tier == "quick" else t


@reg("C01")
def c01(tier):
    run = P.Run("C01", tier, ["C01_"])
    s = run.seed
    defs = F.curated() + F.random_family(1000 + s, sizes(tier, 120, 1500), nmax=sizes(tier, 4, 5))
    defs += F.random_family(2000 + s, sizes(tier, 40, 400), nmax=4, publish=True)
    # every two-task definition of the grammar (1,012): all of them in thorough, a seeded third in quick
    x2 = F.exhaustive_two()
    defs += x2 if tier != "quick" else random.Random(s).sample(x2, 330)
    env = {"max_nodes": sizes(tier, 1500, 6000)}
    run.add_mc(F.curated() + F.random_family(3000 + s, sizes(tier, 60, 600), nmax=4), ["C01"])
    run.add_jobs(jobs_for(defs, env, s, ("yaql", "jinja"), tok="visit"))
    # pause / early resume while several actions are in flight; providers that acknowledge (`requested`, `delayed`)
    # before the action runs
    run.add_jobs(jobs_for(F.curated(), {"pause": 1, "resume_early": True, "max_nodes": sizes(tier, 1500, 6000)}, s))
    run.add_jobs(jobs_for(F.curated() + F.curated_delay() + F.curated_items()[:6],
                          {"delayed": "all", "max_nodes": sizes(tier, 1500, 6000)}, s, tok="visit"))
    # the loop that forks a multiply-referenced task on every pass: every overlap of its instances
    run.add_jobs(jobs_for([d for d in F.curated() if d["name"] == "loop_fork_overlap"], {"max_nodes": sizes(tier, 5000, 12000)}, s))
    return run.finish("model_checking",
                      "every (definition, outcome assignment, report order) explored by DFS on the real conductor; "
                      "non-trivial = tree with more than 4 steps; distinct by definition+environment",
                      ASSUME_COMMON)


@reg("C02")
def c02(tier):
    run = P.Run("C02", tier, ["C02_"])
    s = run.seed
    defs = F.curated() + F.random_family(1100 + s, sizes(tier, 60, 600), nmax=4)
    x2 = F.exhaustive_two()
    defs += x2 if tier != "quick" else random.Random(s).sample(x2, 150)
    run.add_jobs(jobs_for(defs, {"pause": 1, "cancel": 1, "max_nodes": sizes(tier, 1500, 5000)}, s))
    # resume requested while the workflow is still pausing (actions in flight)
    run.add_jobs(jobs_for(F.curated() + F.curated_items()[:6], {"pause": 1, "resume_early": True, "cancel": 1,
                                                                "max_nodes": sizes(tier, 1500, 6000)}, s))
    e2 = F.with_e2(F.curated()[:10] + F.curated_items()[:11] + [d for d in F.curated() + F.curated_ctx() if d["name"] in ("loop2", "loop3")])
    run.add_jobs(jobs_for(e2, {"pause": 1, "cancel": 1, "sample": sizes(tier, 3, 5), "max_nodes": sizes(tier, 1200, 6000)}, s))
    run.add_jobs(jobs_for(F.curated_delay() + F.curated_retry()[:6], {"delayed": True, "pause": 1, "cancel": 1,
                                                                     "max_nodes": sizes(tier, 1500, 6000)}, s))
    # run-time errors (an expression that fails, or renders to the wrong type) end in failed unless a cancellation
    # is in progress
    run.add_jobs(jobs_for(F.fault_family(("type", "str")), {"pause": 1, "cancel": 1, "max_nodes": sizes(tier, 500, 3000)}, s))
    return run.finish("model_checking",
                      "definitions x outcomes x report orders x every placement of one pause(+resume, also while still pausing) and one cancel; "
                      "E2 alphabet (actions that pause/cancel themselves, go pending, time out) on curated shapes incl. with-items",
                      ASSUME_COMMON)


@reg("C03")
def c03(tier):
    run = P.Run("C03", tier, ["C03_"])
    s = run.seed
    defs = F.curated() + F.random_family(1200 + s, sizes(tier, 60, 600), nmax=4)
    # Spec B + provider: C03_rest at every quiescent state and no behaviour cut by the (generous) step bound
    run.add_mc(F.curated() + F.curated_retry() + F.curated_items()[:8] + F.random_family(3400 + s, sizes(tier, 20, 200), nmax=4),
               ["C03"], max_pause=1, max_cancel=(0 if tier == "quick" else 1), max_steps=40, replay=False, bound_check=True)
    run.add_jobs(jobs_for(defs, {"pause": 1, "cancel": 1, "max_nodes": sizes(tier, 1500, 5000)}, s))
    more = F.curated_items() + F.curated_retry()
    run.add_jobs(jobs_for(more, {"pause": 1, "cancel": 1, "max_nodes": sizes(tier, 800, 5000)}, s, tok="visit"))
    e2 = F.with_e2(F.curated()[:10] + F.curated_items()[:11] + [d for d in F.curated() + F.curated_ctx() if d["name"] in ("loop2", "loop3")])
    run.add_jobs(jobs_for(e2, {"pause": 1, "cancel": 1, "sample": sizes(tier, 3, 5), "max_nodes": sizes(tier, 1200, 6000)}, s))
    run.add_jobs(jobs_for(F.curated()[:12] + F.curated_items() + F.curated_retry()[:6],
                          {"rerun": 1, "rerun_tasks": True, "max_nodes": sizes(tier, 1200, 6000)}, s))
    # inquiries: actions whose first report is `pending` (also on the second visit of a loop)
    inq = F.with_e2([d for d in F.curated() + F.curated_ctx() if d["name"] in ("seq", "fork", "diamond", "loop2", "loop3", "join_partial")],
                    fates=("s", "f", "p"))
    run.add_jobs(jobs_for(inq, {"delayed": "pending", "pause": 1, "max_nodes": sizes(tier, 1500, 6000)}, s))
    return run.finish("model_checking",
                      "every quiescent point (query answered empty, nothing in flight) of the explored trees",
                      ASSUME_COMMON)


@reg("C04")
def c04(tier):
    run = P.Run("C04", tier, ["C04_"])
    s = run.seed
    defs = F.curated() + F.random_family(1300 + s, sizes(tier, 40, 400), nmax=4)
    run.add_jobs(jobs_for(defs, {"probe_reqs": True, "pause": 1, "cancel": 1, "max_nodes": sizes(tier, 2500, 8000)}, s))
    run.add_jobs(jobs_for(F.curated_items()[:14], {"probe_reqs": True, "max_nodes": sizes(tier, 1500, 6000)}, s))
    # actions that cancel / pause themselves or go pending: the workflow reaches pausing / canceling through task
    # events while siblings are still running; every request is probed there as well
    e2 = F.with_e2(F.curated()[:8] + F.curated_items()[:8])
    run.add_jobs(jobs_for(e2, {"probe_reqs": True, "pause": 1, "cancel": 1, "sample": sizes(tier, 3, 5),
                               "max_nodes": sizes(tier, 1500, 6000)}, s))
    # lazy provider: offered tasks may still be unstarted when the workflow terminates
    run.add_jobs(jobs_for(F.curated(), {"lazy": True, "max_nodes": sizes(tier, 1500, 6000)}, s))
    lz = F.random_family(1350 + s, sizes(tier, 40, 400), nmax=4)
    run.add_jobs(jobs_for(lz, {"lazy": True, "cancel": 1, "sample": sizes(tier, 3, 4), "max_nodes": sizes(tier, 600, 3000)}, s))
    return run.finish("model_checking",
                      "every reachable state x every status request (probe on a copy) + all late-report suffixes",
                      ASSUME_COMMON)


@reg("C06")
def c06(tier):
    run = P.Run("C06", tier, ["C06_"])
    s = run.seed
    defs = F.curated_ctx() + F.curated() + F.random_family(2300 + s, sizes(tier, 120, 600), nmax=4, publish=True)
    run.add_mc(F.curated_ctx() + F.random_family(3300 + s, sizes(tier, 30, 150), nmax=4, publish=True), ["C06"], replay=True)
    # the intended design (open findings S1 and S2 repaired in the model, no known signatures): the context clauses
    # must hold outright there - they are jointly satisfiable and not an artefact of the code's bookkeeping
    run.add_mc(F.curated_ctx() + F.random_family(3300 + s, sizes(tier, 30, 150), nmax=4, publish=True), ["C06", "C01"],
               known=[], replay=False, intended=True)
    run.add_jobs(jobs_for(defs, {"max_nodes": sizes(tier, 1500, 8000)}, s, ("yaql", "jinja"), tok="visit"))
    run.add_jobs(jobs_for(F.curated_ctx(), {"lazy": True, "max_nodes": sizes(tier, 1500, 8000)}, s, tok="visit"))
    return run.finish("model_checking",
                      "definitions with arbitrary publish placement (unique and conflicting names, rolling publishes, "
                      "splits, joins, loops) x all report orders; the binding monitor (value, publisher, lineage) of "
                      "Props computes the expected context of every offered task, every decision, every published "
                      "delta and the output",
                      ASSUME_COMMON)


@reg("C07")
def c07(tier):
    run = P.Run("C07", tier, ["C07_"])
    s = run.seed
    defs = F.curated() + F.random_family(1400 + s, sizes(tier, 120, 600), nmax=4, fates_f=0.8)
    defs = [d for d in defs if any(t["join"] != 0 for t in d["tasks"].values())]
    run.add_mc(defs[:sizes(tier, 30, 150)], ["C07"], max_pause=1, replay=(tier != "quick"))
    # the intended design (open finding S2 repaired in the model, no known signatures): the join and token
    # clauses must hold outright - they are satisfiable and not vacuously strict
    run.add_mc(defs[:sizes(tier, 30, 150)], ["C07", "C01", "C03", "C02"], max_pause=1, known=[], replay=False, intended=True)
    run.add_jobs(jobs_for(defs, {"max_nodes": sizes(tier, 2000, 8000)}, s))
    run.add_jobs(jobs_for(defs[:sizes(tier, 25, 400)], {"pause": 1, "cancel": 1, "max_nodes": sizes(tier, 1200, 5000)}, s))
    return run.finish("model_checking",
                      "definitions with join: all / join: N x outcome assignments x all arrival orders relative "
                      "to the join's own start and completion",
                      ASSUME_COMMON)


@reg("C18")
def c18(tier):
    run = P.Run("C18", tier, ["C18_"])
    s = run.seed
    defs = F.curated() + F.random_family(1500 + s, sizes(tier, 40, 800), nmax=4, publish=True)
    run.add_jobs(jobs_for(defs, {"pause": 1, "max_nodes": sizes(tier, 1000, 5000)}, s))
    more = F.curated_items() + F.curated_retry() + F.curated_ctx()
    run.add_jobs(jobs_for(more, {"pause": 1, "cancel": 1, "max_nodes": sizes(tier, 800, 5000)}, s, tok="visit"))
    run.add_jobs(jobs_for(F.curated() + F.curated_items()[:9], {"rerun": 1, "rerun_tasks": True, "sample": sizes(tier, 3, 6),
                                                                "max_nodes": sizes(tier, 800, 6000)}, s))
    run.add_jobs(jobs_for(F.curated(), {"lazy": True, "sample": sizes(tier, 2, 3), "max_nodes": sizes(tier, 500, 4000)}, s))
    joins = [d for d in F.curated() + F.curated_ctx() + F.curated_items() if any(t["join"] != 0 for t in d["tasks"].values())]
    run.add_jobs(jobs_for(joins, {"lazy": True, "rerun": 1, "rerun_tasks": True, "sample": sizes(tier, 2, 4),
                                  "max_nodes": sizes(tier, 600, 8000)}, s))
    small = [d for d in joins if len(d["tasks"]) <= 4] + [d for d in F.curated_items() if d["name"] == "items_chain"]
    if tier == "quick":
        small = [d for d in small if d["name"] in ("join1_two_roots", "items_chain", "two_roots_join", "join_partial")]
    run.add_jobs(jobs_for(small, {"lazy": True, "rerun": 1, "rerun_multi": "all", "max_nodes": sizes(tier, 6000, 20000)}, s))
    # recorded context snapshots holding nested values (dict published again with other keys, >= 3 entries merged)
    from . import datapath as DP
    paths, res = DP.enumerate_paths(run.tmp)
    vals = DP.values(s, 40)
    run.add_groups([dict(g, kind="snapshots") for g in DP.datapath_groups(paths, vals, seed=s, per_value=2)])
    return run.finish("model_checking",
                      "every pair of consecutive recorded states of every explored history",
                      ASSUME_COMMON)


@reg("C09")
def c09(tier):
    from . import groups as G
    run = P.Run("C09", tier, ["C09_"])
    s = run.seed
    defs = F.curated() + F.random_family(1600 + s, sizes(tier, 60, 120), nmax=4, publish=True)
    run.add_mc(F.curated() + F.random_family(3100 + s, sizes(tier, 30, 120), nmax=4), ["C09"], max_pause=1,
               replay=(tier != "quick"))
    run.add_jobs(jobs_for(defs, {"pause": 1, "max_nodes": sizes(tier, 1500, 6000)}, s, ("yaql", "jinja")))
    run.add_jobs(jobs_for(F.curated_items() + F.curated_retry() + F.curated_ctx(), {"pause": 1, "max_nodes": sizes(tier, 1000, 6000)}, s))
    gs, infeasible = G.pause_groups(run.results, sizes(tier, 40, 60), random.Random(s))
    run.extra["twin_infeasible"] = infeasible
    run.add_groups(gs)
    return run.finish("model_checking",
                      "every placement of one pause (and its resume once at rest) in every explored history: step "
                      "clauses C09_hold/paused_when_drained/resume_work on each call; each terminal paused run "
                      "compared with its de-paused twin (same reports, no pause) by C09_same_*",
                      ASSUME_COMMON + ["twin = the paused run's own report sequence replayed without pause/resume"])


@reg("C10")
def c10(tier):
    run = P.Run("C10", tier, ["C10_"])
    s = run.seed
    defs = F.curated() + F.random_family(1700 + s, sizes(tier, 60, 250), nmax=4, publish=True)
    run.add_mc(F.curated() + F.random_family(3200 + s, sizes(tier, 30, 120), nmax=4), ["C10"], max_pause=1, max_cancel=1,
               replay=(tier != "quick"))
    run.add_jobs(jobs_for(defs, {"pause": 1, "cancel": 1, "resume_early": tier != "quick",
                                 "max_nodes": sizes(tier, 1500, 6000)}, s))
    more = F.curated_items() + F.curated_retry()
    run.add_jobs(jobs_for(more, {"pause": 1, "cancel": 1, "max_nodes": sizes(tier, 800, 5000)}, s, tok="visit"))
    e2 = F.with_e2(F.curated()[:10] + F.curated_items()[:11] + [d for d in F.curated() + F.curated_ctx() if d["name"] in ("loop2", "loop3")])
    run.add_jobs(jobs_for(e2, {"cancel": 1, "sample": sizes(tier, 3, 5), "max_nodes": sizes(tier, 1200, 6000)}, s))
    return run.finish("model_checking",
                      "cancel requested at every position (from running, pausing, paused, resuming) of every explored history",
                      ASSUME_COMMON)


@reg("C08")
def c08(tier):
    from . import groups as G
    from . import defs as D
    run = P.Run("C08", tier, ["C08_"])
    s = run.seed
    rng = random.Random(s)
    base = [d for d in F.curated() + F.curated_ctx() + F.random_family(1800 + s, sizes(tier, 60, 500), nmax=sizes(tier, 4, 5), publish=True)
            if D.is_acyclic(d)]
    scen = []
    for d in base:
        scen.extend(G.fate_assignments(d, cap=sizes(tier, 6, 16), rng=rng))
    run.add_jobs(jobs_for(scen, {"max_nodes": sizes(tier, 2500, 10000)}, s, ("yaql", "jinja")))
    # providers that report `delayed` first: a delayed action is in flight like any other
    dscen = []
    for d in F.curated_delay():
        dscen.extend(G.fate_assignments(d, cap=8, rng=rng))
    run.add_jobs(jobs_for(dscen, {"delayed": True, "max_nodes": sizes(tier, 2500, 10000)}, s))
    run.add_groups(G.order_groups(run.results))
    return run.finish("model_checking",
                      "acyclic definitions x outcome fixed per task: all linearisations of the completion partial "
                      "order explored by DFS on the real conductor; terminal leaves of one scenario form a group "
                      "related by C08_status/executed/published/output",
                      ASSUME_COMMON + ["'written by two concurrent branches' is decided statically (publish sites on "
                                       "graph-unordered tasks), an over-approximation of concurrency"])


@reg("C05")
def c05(tier):
    from . import groups as G
    run = P.Run("C05", tier, ["C05_"])
    s = run.seed
    defs = F.curated() + F.random_family(1900 + s, sizes(tier, 50, 500), nmax=4, publish=True)
    defs += F.curated_items() + F.curated_retry() + F.curated_ctx()
    defs += [d for d in F.fault_family(("undef",)) if d["fault"]["pos"] in ("vars", "output", "publish", "when")]
    run.add_jobs(jobs_for(defs, {"pause": 1, "cancel": 1, "sample": sizes(tier, 2, 3), "max_nodes": sizes(tier, 400, 1500)},
                          s, ("yaql", "jinja")))
    gs, errors = G.persist_groups(run.results, sizes(tier, 4, 10), random.Random(s))
    # shapes in which an execution record and a staging entry coexist for one task (retry staged, with-items running,
    # join: 1 target reached twice), lazy provider (the staged retry / the offered task waits while siblings report):
    # every history, restored after every call and at sampled points
    n0 = len(run.results)
    focus = [d for d in F.curated_retry() + F.curated_items() + F.curated()
             if d["name"] in ("retry_join1", "retry_split", "retry_cmd", "items_join1_target", "items_join1_then_fail",
                              "items_join1_late_pub", "join1_two_roots", "join_partial")]
    run.add_jobs(jobs_for(focus, {"lazy": True, "max_nodes": sizes(tier, 1500, 6000)}, s))
    # ... and the shapes whose outcome depends on what was recorded when (late output, publishes, faults): every
    # history of the eager provider
    focus2 = F.curated_ctx() + [d for d in F.fault_family(("undef",)) if d["fault"]["pos"] in ("vars", "output", "publish", "when")]
    run.add_jobs(jobs_for(focus2, {"max_nodes": sizes(tier, 1500, 6000)}, s))
    gs2, errors2 = G.persist_groups(run.results[n0:], sizes(tier, 1000, 5000), random.Random(s + 1), subsets=0, lean=True)
    run.extra["persist_job_errors"] = errors + errors2
    run.add_groups(gs + gs2)
    # the data-path host: nested values, publishes over publishes, output rendered and a rerun after it
    from . import datapath as DP
    paths, res = DP.enumerate_paths(run.tmp)
    gs3, errs3 = DP.persist_pairs(paths, DP.values(s, sizes(tier, 60, 400)), seed=s)
    for e in errs3[:2]:
        run.machinery.append("data-path pair: " + e["error"][:1200])
    run.add_groups(gs3)
    return run.finish("model_checking",
                      "for sampled complete histories: live run vs run restored (deserialize(serialize())) after "
                      "every call / after random subsets of calls / after one call; compared step by step",
                      ASSUME_COMMON + ["persist points are sampled (all, single, random subsets), not all 2^n subsets"])


@reg("C11")
def c11(tier):
    run = P.Run("C11", tier, ["C11_"], conform=True, conform_budget=sizes(tier, 15000, 100000))
    s = run.seed
    kinds = ("undef", "key", "type", "func", "str")
    fam = F.fault_family(kinds)
    run.add_mc([d for d in fam if d["fault"]["pos"] not in ("action", "input", "items", "conc", "delay")][::4], ["C11"],
               max_pause=1, replay=True)
    run.add_jobs(jobs_for(fam, {"pause": 1, "cancel": 1, "max_nodes": sizes(tier, 700, 4000)}, s, ("yaql",), tok="visit"))
    run.add_jobs(jobs_for(fam, {"pause": 1, "max_nodes": sizes(tier, 500, 4000)}, s, ("jinja",), tok="visit"))
    rend = [d for d in fam if d["fault"]["pos"] in ("action", "input", "items", "conc", "delay")][::2]
    # (the retry positions are evaluated when an execution record is created - also by a rerun)
    rend += [d for d in fam if d["fault"]["pos"] in ("retry_count", "retry_delay", "retry_when")]
    run.add_jobs(jobs_for(rend, {"rerun": 1, "rerun_tasks": "all", "max_nodes": sizes(tier, 900, 4000)}, s, ("yaql", "jinja")))
    # the conductor is persisted and restored right after construction and after every call: what was recorded
    # (the error entries of input / vars rendering among them) is still there
    run.add_jobs(jobs_for([d for d in fam if d["fault"]["pos"] in ("vars", "output", "when", "publish", "action")],
                          {"persist_points": "all", "sample": 3, "max_nodes": 300}, s, ("yaql", "jinja")))
    run.add_jobs(jobs_for([d for d in fam if d["fault"]["pos"] == "vars"], {"persist_points": [0], "max_nodes": 100}, s))
    # the faulty position evaluated by a late completion: the action went pending (an inquiry), the workflow
    # was paused / canceled meanwhile, then the action completes
    late = F.with_e2([d for d in fam if d["fault"]["pos"] in ("when", "publish", "retry_when", "retry_count", "retry_delay")],
                     fates=("s", "f", "p"))
    run.add_jobs(jobs_for(late, {"pause": 1, "cancel": 1, "max_nodes": sizes(tier, 600, 3000)}, s, ("yaql",), tok="visit"))
    if tier != "quick":
        run.add_jobs(jobs_for(fam, {"lazy": True, "max_nodes": 4000}, s + 1, ("jinja", "yaql"), tok="visit"))
    run.extra["positions"] = list(F.FAULT_POSITIONS)
    run.extra["kinds"] = list(kinds)
    return run.finish("fault_enumeration",
                      "12 expression-bearing positions x 4 failure kinds (undefined variable, missing key, wrong type, "
                      "unknown function) x 2 expression languages, on a fork/join host; every history of the host with "
                      "one pause and one cancel placed anywhere, so the faulty position is evaluated at every point "
                      "at which it can be",
                      ASSUME_COMMON + ["'every way evaluation can fail' = the four kinds the concretiser knows"])


@reg("C12")
def c12(tier):
    run = P.Run("C12", tier, ["C12_"])
    s = run.seed
    defs = F.curated_items() + F.random_family(2100 + s, sizes(tier, 50, 500), nmax=3, items=True)
    run.add_mc(F.curated_items(), ["C12"], max_pause=1, max_cancel=(0 if tier == "quick" else 1), max_steps=16,
               replay=True)
    run.add_jobs(jobs_for(defs, {"pause": 1, "cancel": 1, "max_nodes": sizes(tier, 1500, 6000)}, s, ("yaql", "jinja"), tok="visit"))
    e2 = F.with_e2(F.curated_items(), fates=("s", "f", "C", "P", "t"))
    run.add_jobs(jobs_for(e2, {"pause": 1, "cancel": 1, "sample": sizes(tier, 3, 5), "max_nodes": sizes(tier, 1500, 8000)}, s))
    # reruns of with-items tasks (failed items only / reset_items), incl. items that timed out or were abandoned
    run.add_jobs(jobs_for(F.curated_items(), {"rerun": 1, "rerun_tasks": True, "max_nodes": sizes(tier, 1500, 8000)}, s))
    return run.finish("model_checking",
                      "with-items tasks (n in 0..4, concurrency absent/1/2/0/expression; alone, in a branch, as join "
                      "target, parallel, with retry) x item outcome vectors x all report orders x pause/cancel placements",
                      ASSUME_COMMON + ["the provider accumulates item results (as StackStorm does); whole-batch item starts only"])


@reg("C13")
def c13(tier):
    run = P.Run("C13", tier, ["C13_"])
    s = run.seed
    defs = F.curated_retry() + F.random_family(2200 + s, sizes(tier, 60, 600), nmax=3, retry=True)
    run.add_mc(F.curated_retry(), ["C13"], max_pause=1, max_cancel=(0 if tier == "quick" else 1), max_steps=16, replay=True)
    run.add_jobs(jobs_for(defs, {"pause": 1, "cancel": 1, "max_nodes": sizes(tier, 1500, 6000)}, s, ("yaql", "jinja"), tok="visit"))
    return run.finish("model_checking",
                      "retry count 1..2 (+ retry command), condition default/completed/succeeded/failed, delay, in "
                      "sequence/branch/join/with-items x outcome sequences x sibling interleavings x pause/cancel",
                      ASSUME_COMMON)


@reg("C14")
def c14(tier):
    from . import graphs as GR
    from . import tlc, explore as X
    run = P.Run("C14", tier, ["C14_"])
    s = run.seed
    defs = F.curated() + F.curated_ctx() + F.curated_retry() + F.graph_family(5000 + s, sizes(tier, 300, 4000), nmax=sizes(tier, 5, 7))
    # (b) the composer's algorithm, model-checked against the reference graph for every definition
    dpath = os.path.join(run.tmp, "gdefs.json")
    with open(dpath, "w") as f:
        json.dump([X.tla_def(d) for d in defs], f)
    res = tlc.run("Compose", env={"DEFS_FILE": dpath}, workers=16, timeout=1500, workdir=run.tmp)
    run.mc_states += res["distinct"]
    run.mc_transitions += res["states"]
    run.extra["compose_algorithm"] = {"defs": len(defs), "states": res["distinct"], "rc": res["rc"],
                                      "invariant": "Terminated => graph = RefGraph(def); terminates (liveness)"}
    if res["rc"] != 0:
        if "is violated" in res["out"] or "Temporal properties were violated" in res["out"]:
            run.extra["compose_algorithm"]["violated"] = True      # design-level counterexample; the code is judged below
        else:
            run.machinery.append("Compose tlc rc=%s\n%s" % (res["rc"], res["out"][-3000:]))
    # (c) the real composer against the reference, under permutations and a serialise/restore round trip
    gs, errs = GR.graph_groups(defs, nperm=sizes(tier, 6, 24), seed=s)
    for e in errs[:3]:
        run.machinery.append("compose harness: " + e["error"][:1500])
    run.add_groups(gs)
    return run.finish("model_checking",
                      "accepted definitions with arbitrary fan-out/fan-in, back edges, several transitions between the "
                      "same pair, engine commands, joins, retry: the composer's worklist algorithm model-checked "
                      "against RefGraph; the real composer's graph compared with RefGraph under all (<= 4 tasks) or "
                      "sampled permutations of the declaration order and across serialize/deserialize",
                      ["TLC computes RefGraph(def) and the comparison (spec/RefGraph.tla, spec/Groups.tla)",
                       "the mapping of criteria strings back to abstract conditions is the concretiser's inverse"])


@reg("C15")
def c15(tier):
    from . import inspects as I
    run = P.Run("C15", tier, ["C15_"])
    s = run.seed
    # soundness half: accepted definitions are conducted under many histories without an internal error
    defs = F.curated() + F.random_family(2500 + s, sizes(tier, 60, 150), nmax=4, publish=True)
    defs += F.curated_items() + F.curated_retry() + F.curated_ctx() + F.graph_family(2600 + s, sizes(tier, 40, 80), nmax=5)
    run.add_jobs(jobs_for(defs, {"pause": 1, "cancel": 1, "sample": sizes(tier, 3, 4), "max_nodes": sizes(tier, 600, 1500)},
                          s, ("yaql", "jinja"), tok="visit"))
    run.add_jobs(jobs_for(F.curated() + F.curated_items()[:8], {"rerun": 1, "rerun_tasks": True, "sample": 3,
                                                                "max_nodes": sizes(tier, 800, 4000)}, s))
    # definitions inspection accepts although an expression fails at run time (wrong type, unknown function):
    # the failure must be contained whatever the workflow is doing (pausing, canceling, ...)
    rt = [d for d in F.fault_family(("type", "func")) if F.accepted(d)]
    run.extra["accepted_runtime_faulty"] = len(rt)
    run.add_jobs(jobs_for(rt, {"pause": 1, "cancel": 1, "sample": sizes(tier, 4, 6), "max_nodes": sizes(tier, 500, 3000)}, s))
    # completeness half: single-fault mutants enumerated by TLC (spec/Inspect.tla)
    hosts = F.curated() + F.curated_items()[:4] + F.curated_retry()[:4] + F.graph_family(2700 + s, sizes(tier, 10, 30), nmax=4)
    faults, res = I.enumerate_faults(hosts, run.tmp)
    run.mc_states += res["distinct"]
    run.mc_transitions += res["states"]
    if res["rc"] != 0 or not faults:
        run.machinery.append("Inspect tlc rc=%s\n%s" % (res["rc"], res["out"][-2000:]))
    gs, errs = I.inspect_groups(hosts, faults, seed=s, cap=sizes(tier, 4000, 10000))
    for e in errs[:3]:
        run.machinery.append("inspect harness: " + e["error"][:1500])
    run.extra["faults_enumerated"] = len(faults)
    run.add_groups(gs)
    return run.finish("fault_enumeration",
                      "soundness: accepted definitions (incl. cycles, commands, with-items, retry) conducted under "
                      "sampled histories with pause/cancel/rerun, any exception other than a documented rejection is "
                      "C15_internal_error; completeness: every single-fault mutant (undefined target, reserved name, "
                      "no start task, broken grammar, unassigned variable in 4 reference forms x 2 languages) of the "
                      "host definitions, enumerated by TLC, must be reported in the right category at the right position",
                      ["broken-grammar corpus: 4 delimited strings per language (TLA+ does not model the expression grammars)",
                       "over-reporting is allowed; only the presence of the expected entry is required"])


@reg("C17")
def c17(tier):
    from . import groups as G
    run = P.Run("C17", tier, ["C17_"], keep_obs=True)
    s = run.seed
    # Spec B with the Rerun action: C17 clauses model-checked, behaviours replayed into the real conductor
    run.add_mc((F.curated()[:16] if tier == "quick" else F.curated() + F.curated_retry()[:4] + F.random_family(3500 + s, 30, nmax=4)),
               ["C17"], max_rerun=1, max_steps=18, replay=True)
    defs = F.curated() + F.curated_ctx() + F.random_family(2400 + s, sizes(tier, 40, 100), nmax=4, publish=True)
    env = {"rerun": 1, "rerun_tasks": True, "max_nodes": sizes(tier, 1200, 2500)}
    run.add_jobs(jobs_for(defs, env, s, ("yaql", "jinja")))
    run.add_jobs(jobs_for(F.curated_items() + F.curated_retry() + F.fault_family(("undef",), ("when", "publish", "output")),
                          dict(env, max_nodes=sizes(tier, 700, 2500), **({"sample": 4} if tier == "quick" else {})), s))
    # rerun requests probed in every state (accepted only when completed and for existing executions)
    run.add_jobs(jobs_for(F.curated() + F.curated_items()[:9] + F.curated_retry()[:4],
                          {"probe_rerun": True, "pause": 1, "cancel": 1, "max_nodes": sizes(tier, 600, 2500)}, s))
    if tier != "quick":
        run.add_jobs(jobs_for(F.curated(), dict(env, rerun=2, cancel=1), s))
    # one rerun request for every execution (whatever its status) of a finished history of the shapes with splits
    # and joins, then every lazy continuation (re-offered tasks wait while others report)
    pj = []
    for nm, ft in (("split_join", "t5"), ("two_roots_split_join", "z"), ("join1_two_roots", "t3"), ("diamond", "t4")):
        d = [x for x in F.curated() if x["name"] == nm][0]
        for k, pre in enumerate(F.rerun_prefixes(d, ft)):
            pj.append((d, {"prefix": pre, "lazy": True, "max_nodes": sizes(tier, 300, 600)}, "yaql", "task", s * 1000 + k))
    run.add_jobs(pj)
    gs, skipped = G.rerun_groups(run.results, sizes(tier, 30, 80), random.Random(s))
    run.extra["rerun_groups_skipped"] = skipped
    run.add_groups(gs)
    return run.finish("model_checking",
                      "every completed resting history (task failure, item failure, fail command, runtime error, "
                      "unreachable join, also succeeded/canceled) x default rerun and every single-task rerun (with and "
                      "without reset_items) x all continuations; reruns whose re-executed actions all succeed are related "
                      "to the clean scenario's terminal observations (C17_converge)",
                      ASSUME_COMMON + ["request sets: default and single task; pairs of tasks are not enumerated in quick"])


@reg("C19")
def c19(tier):
    from . import groups as G
    run = P.Run("C19", tier, ["C19_"])
    s = run.seed
    # purity of the query: C19_idem on every query step of broad families (first query initialises with-items)
    defs = F.curated() + F.curated_items() + F.curated_retry() + F.curated_ctx()
    defs += F.random_family(2800 + s, sizes(tier, 40, 400), nmax=4, publish=True, items=True, retry=True)
    run.add_jobs(jobs_for(defs, {"pause": 1, "cancel": 1, "sample": sizes(tier, 3, 5), "max_nodes": sizes(tier, 600, 3000)},
                          s, ("yaql", "jinja"), tok="visit"))
    run.add_jobs(jobs_for(F.curated() + F.curated_items()[:8], {"rerun": 1, "rerun_tasks": True, "rerun_multi": True, "sample": 3,
                                                                "max_nodes": sizes(tier, 800, 4000)}, s))
    run.add_jobs(jobs_for(F.fault_family(("undef", "type")) + F.multi_ref_family(), {"sample": 2, "max_nodes": 300}, s, ("yaql", "jinja")))
    # determinism across interpreter hash seeds: sampled complete histories replayed in subprocesses
    seeds = (0, 1, 7) if tier == "quick" else (0, 1, 2, 3, 7, 11, 101, 4242)
    gs, errs = G.seed_groups(run.results, seeds, sizes(tier, 2, 6), random.Random(s), run.tmp,
                             inspect_only=F.inspect_order_family())
    for e in errs[:3]:
        run.machinery.append("seed run: " + str(e)[:1500])
    run.extra["hash_seeds"] = list(seeds)
    run.add_groups(gs)
    # purity of the query on the data-path host (nested values published over published values)
    from . import datapath as DP
    paths, res = DP.enumerate_paths(run.tmp)
    if res["rc"] != 0 or not paths:
        run.machinery.append("DataPath tlc rc=%s\n%s" % (res["rc"], res["out"][-2000:]))
    run.add_groups(DP.datapath_groups(paths, DP.values(s, sizes(tier, 40, 400)), seed=s, per_value=2))
    return run.finish("exploration",
                      "C19_idem (same answer, same persisted form) at every query of sampled histories over all families; "
                      "sampled complete histories (incl. multi-request reruns, faulty definitions) replayed in one process "
                      "per PYTHONHASHSEED and compared step by step (graph, inspection report, persisted form, offers in "
                      "order, errors, output) by C19_same",
                      ASSUME_COMMON + ["the hash-seed dimension is realised by processes; TLC is the comparator of digests"])


@reg("C20")
def c20(tier):
    from . import shorthand as SH
    run = P.Run("C20", tier, ["C20_"])
    s = run.seed
    cases, res = SH.enumerate_cases(run.tmp, max_len=2)
    run.mc_states += res["distinct"]
    run.mc_transitions += res["states"]
    if res["rc"] != 0 or not cases:
        run.machinery.append("Params tlc rc=%s\n%s" % (res["rc"], res["out"][-2000:]))
    gs, errs = SH.shorthand_groups(cases, cap=sizes(tier, 700, None), seed=s)
    for e in errs[:3]:
        run.machinery.append("shorthand harness: " + e["error"][:1500])
    run.extra["cases_enumerated"] = len(cases)
    run.extra["value_classes"] = sorted(SH.CORPUS)
    for g in gs:                      # keep the group files small: details only in replay files
        for m in g["members"]:
            g.setdefault("replay", {}).setdefault("detail", []).append(m["fin"].pop("detail", None))
    run.add_groups(gs)
    return run.finish("exploration",
                      "parameter lists of 1..2 values over 10 value classes (2-3 representatives each) x 3 delimiters x "
                      "{action, publish}; do as 'a, b' / 'a,b' / single vs list; with as expression / 'x in' / 'x, y in' "
                      "vs mapping; omitted do vs continue - enumerated by TLC (spec/Params.tla); each shorthand/longhand "
                      "twin is parsed, composed, inspected and conducted on the real code; C20_same / C20_denote by TLC",
                      ["the text grammar of the representatives lives in harness/shorthand.py; brackets and bare words are not covered",
                       "exotic number spellings (.5, 1e5, 007) are not in the corpus (DESIGN.md S12)"])


@reg("C16")
def c16(tier):
    from . import datapath as DP
    run = P.Run("C16", tier, ["C16_"])
    s = run.seed
    paths, res = DP.enumerate_paths(run.tmp)
    run.mc_states += res["distinct"]
    run.mc_transitions += res["states"]
    if res["rc"] != 0 or not paths:
        run.machinery.append("DataPath tlc rc=%s\n%s" % (res["rc"], res["out"][-2000:]))
    vals = DP.values(s, sizes(tier, 260, 3000))
    gs = DP.datapath_groups(paths, vals, seed=s, per_value=sizes(tier, 3, 8))
    run.extra["paths_enumerated"] = len(paths)
    run.extra["values"] = len(vals)
    run.add_groups(gs)
    return run.finish("exploration",
                      "paths (injection stage x 7 reference forms x persist/restore at <= 2 of 9 points) enumerated by "
                      "TLC; JSON values (special numbers incl. > 64 bit integers, float extremes, -0.0, strings that "
                      "look like numbers/booleans/null/format directives, unicode, nested containers; seeded random) "
                      "run through sampled paths on the real code; C16_preserved / C16_pure / C16_hidden by TLC",
                      ["exploration of the value space; the type-tagged encoder (harness/shorthand.py:tag) is trusted",
                       "values containing expression delimiters are excluded as the property says"])


@reg("selftest")
def selftest(tier):
    """Not a property: the validators reject corrupted traces / a mutated specification (DESIGN.md 4.4)."""
    from . import selftest as ST
    return ST.run()


@reg("conform")
def conform(tier):
    """Not a property: code -> spec conformance of Spec B over all families (divergences must be 0)."""
    run = P.Run("conform", tier, [], conform=True)
    s = run.seed
    n = sizes(tier, 40, 300)
    run.add_jobs(jobs_for(F.curated() + F.random_family(7 + s, n, nmax=4) + F.random_family(8 + s, n // 2, nmax=4, publish=True),
                          {"pause": 1, "cancel": 1, "max_nodes": 800}, s, ("yaql", "jinja"), tok="visit"))
    run.add_jobs(jobs_for(F.curated_items() + F.random_family(17 + s, n // 2, nmax=3, items=True) +
                          F.curated_retry() + F.random_family(18 + s, n // 2, nmax=3, retry=True),
                          {"pause": 1, "cancel": 1, "max_nodes": 800}, s, ("yaql", "jinja"), tok="visit"))
    run.add_jobs(jobs_for(F.with_e2(F.curated()[:10] + F.curated_items()[:11]),
                          {"pause": 1, "cancel": 1, "sample": 3, "max_nodes": 1500}, s))
    run.add_jobs(jobs_for(F.curated() + F.curated_items()[:10] + F.curated_retry()[:6] + F.random_family(27 + s, n // 2, nmax=4, publish=True),
                          {"rerun": 1, "rerun_tasks": "all", "rerun_multi": True, "probe_rerun": True, "max_nodes": 1500}, s))
    # providers that acknowledge before running (`requested` / `delayed` first), resume while still pausing
    run.add_jobs(jobs_for(F.curated() + F.curated_delay() + F.curated_items()[:6] + F.curated_retry()[:6],
                          {"delayed": "all", "pause": 1, "cancel": 1, "max_nodes": 800}, s, tok="visit"))
    run.add_jobs(jobs_for(F.curated() + F.curated_items()[:6], {"pause": 1, "resume_early": True, "cancel": 1, "max_nodes": 800}, s))
    # the status tables of the specification against machines.py, cell by cell, both ways
    from . import tlc
    import re
    res = tlc.run("LifecycleDump", workers=1, timeout=300, workdir=run.tmp)
    m = re.search(r'<<"LC", "(.*)">>', res["out"])
    cells = {"compared": 0, "differ": []}
    if not m:
        run.machinery.append("LifecycleDump: no output\n" + res["out"][-1500:])
    else:
        spec_t = json.loads(m.group(1).encode().decode("unicode_escape"))
        from orquesta import machines
        for nm, code_t in (("wf", machines.WORKFLOW_STATE_MACHINE_DATA), ("tk", machines.TASK_STATE_MACHINE_DATA)):
            st_all = set(code_t) | set(spec_t[nm])
            for st in sorted(st_all):
                crow = dict(code_t.get(st, {}))
                srow = {k: v for k, v in dict(spec_t[nm].get(st, {})).items() if k != "none"}
                for ev in sorted(set(crow) | set(srow)):
                    cells["compared"] += 1
                    if crow.get(ev) != srow.get(ev):
                        cells["differ"].append([nm, st, ev, crow.get(ev), srow.get(ev)])
    run.extra["lifecycle_cells"] = {"compared": cells["compared"], "differing": len(cells["differ"]), "samples": cells["differ"][:5]}
    run.divergences += len(cells["differ"])
    print("lifecycle tables: cells=%d differing=%d" % (cells["compared"], len(cells["differ"])))
    print("conformance: steps=%d divergences=%d" % (run.conform_nodes, run.divergences))
    rc = run.finish("model_checking", "every explored step compared with Spec B's transition function", ASSUME_COMMON)
    return 2 if run.divergences else (0 if rc in (0, 1) else rc)


def replay(prop, path):
    """Re-run one recorded violation on the current tree and print the failing clauses."""
    from . import explore as X
    from . import tlc
    with open(path) as f:
        rp = json.load(f)
    if rp.get("env", {}).get("source") == "pytest":
        # a trace recorded from one of the repository's tests: record that test again and validate it
        run = P.Run(prop, "quick", [prop + "_"])
        run.add_test_traces((rp["env"]["test"],))
        viol, _ = run.classify()
        run.close()
        for v in viol:
            print("clause %s false at step %d of a conductor driven by %s" % (v["clause"], v["node"], rp["env"]["test"]))
        if viol:
            print("VIOLATION property=%s replay=%s" % (prop, path))
            return 1
        print("no %s clause fails on this replay" % prop)
        return 0
    r = X.run_schedule(rp["def"], rp["schedule"], lang=rp.get("lang", "yaql"), tok=rp.get("tok", "task"),
                       lazy=bool(rp.get("env", {}).get("lazy")), delayed=rp.get("env", {}).get("delayed"),
                       persist_points=rp.get("env", {}).get("persist_points"))
    tree = X.Tree(rp["def"])
    tree.add_steps(0, r.steps, None)
    run = P.Run(prop, "quick", [prop + "_"])
    batch = os.path.join(run.tmp, "replay.json")
    with open(batch, "w") as f:
        tj = tree.to_json(1)
        tj["own"] = [prop]
        tj["known"] = []
        json.dump([tj], f)
    res = tlc.run("Trace", env={"TRACE_FILE": batch}, workers=1)
    vs = tlc.verdicts(res["out"], "V")
    run.close()
    for v in vs:
        print("clause %s false at step %d" % (v[3], v[2]))
    mine = [v for v in vs if v[3].startswith(prop + "_")]
    if mine:
        print("VIOLATION property=%s replay=%s" % (prop, path))
        return 1
    print("no %s clause fails on this replay" % prop)
    return 0
