"""Runs given (definition, schedule) pairs in THIS process (started with some PYTHONHASHSEED) and
prints, per pair, the digests of everything C19 says must not depend on the interpreter's hash
seed: graph, inspection report, every step's persisted form, offers in order, errors, output."""
import hashlib
import json
import os
import sys

sys.path.insert(0, os.path.dirname(os.path.dirname(os.path.abspath(__file__))))


def dg(x):
    return hashlib.sha1(json.dumps(x, sort_keys=False, default=str).encode()).hexdigest()[:16]


def main():
    from harness import explore as X, defs as D
    from harness.real import native_specs
    import copy
    jobs = json.load(open(sys.argv[1]))
    out = []
    for j in jobs:
        d, sched, lang, lazy = j["def"], j["sched"], j["lang"], j.get("lazy", False)
        try:
            spec = native_specs.WorkflowSpec(copy.deepcopy(D.concretise(d, lang)))
            insp = spec.inspect()
            if j.get("inspect_only"):       # a definition that cannot be conducted (undefined targets, ...)
                out.append({"graph": "n/a", "inspect": dg(insp), "trail": [], "errors": "n/a", "output": "n/a",
                            "seed": os.environ.get("PYTHONHASHSEED", "")})
                continue
            r = X.Real(d, lang=lang, tok="task")
            graph = r.c.graph.serialize()
            trail = []
            for ch in sched:
                n0 = len(r.steps)
                X.apply_choice(r, list(ch), lazy)
                ser = r.c.serialize()
                ser.pop("spec", None)
                trail.append([dg(ser), dg([[o["id"], o["route"], o["items"], o["delay"], sorted(o["ctx"].items())]
                                            for s in r.steps[n0:] for o in s["obs"]["offers"]]),
                              [s["ret"] for s in r.steps[n0:]]])
            out.append({"graph": dg(graph), "inspect": dg(insp), "trail": trail, "errors": dg(r.c.errors),
                        "output": dg(r.c.get_workflow_output()), "seed": os.environ.get("PYTHONHASHSEED", "")})
        except Exception as e:
            out.append({"error": "%s: %s" % (type(e).__name__, e)})
    json.dump(out, sys.stdout)


if __name__ == "__main__":
    main()
