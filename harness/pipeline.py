"""explore the real code -> JSON batches -> TLC (spec/Trace.tla: Props clauses) -> verdicts ->
known-findings classification -> evidence.  Verdicts are TLC's; this module only moves data."""

import json
import multiprocessing as mp
from .par import pmap
import os
import random
import shutil
import sys
import tempfile
import time

ROOT = os.path.dirname(os.path.dirname(os.path.abspath(__file__)))
OUT = os.path.join(ROOT, "out")
EVID = os.environ.get("VERIF_EVIDENCE_DIR") or os.path.join(ROOT, "evidence")   # (seed sweeps against mutated trees write elsewhere)


def seed():
    return int(os.environ.get("VERIF_SEED", "0") or 0)


def _explore_job(job):
    from . import explore as X
    d, env, lang, tok, s = job
    rng = random.Random(s)
    try:
        tree = X.explore(d, env, lang=lang, tok=tok, rng=rng)
        return {"ok": True, "tree": tree.to_json(0), "sched": _schedules(tree), "truncated": tree.truncated,
                "leaves": tree.leaves, "fins": tree.fins, "d": d, "env": env, "lang": lang, "tok": tok}
    except Exception as e:  # harness failure, not a verdict
        import traceback
        return {"ok": False, "err": "%s: %s\n%s" % (type(e).__name__, e, traceback.format_exc()), "d": d}


def _schedules(tree):
    """node -> choice list is recomputed on demand from parents; keep only the choice per node."""
    return [None] + [n.get("ch") for n in tree.nodes[1:]]


def explore_all(jobs, procs=16):
    if not jobs:
        return []
    if procs <= 1 or len(jobs) == 1:
        return [_explore_job(j) for j in jobs]
    return pmap(_explore_job, jobs, procs)


def node_schedule(res, node):
    """choices along the path root..node of an explored tree result."""
    nodes = res["tree"]["nodes"]
    path = []
    n = node
    while n:
        path.append(n)
        n = nodes[n - 1]["p"]
    out = []
    for i in reversed(path):
        ch = res["sched"][i]
        if ch is not None:
            out.append(ch)
    return out


class Run(object):
    """One check run: accumulates batches, verdicts and coverage numbers."""

    def __init__(self, prop, tier, clauses, module="Trace", conform=False, conform_budget=None, keep_obs=False):
        self.keep_obs = keep_obs       # keep every node's observation in memory (C17's rerun groups read them)
        self.conform, self.conform_budget, self.conform_nodes = conform, conform_budget, 0
        self.prop, self.tier, self.clauses, self.module = prop, tier, tuple(clauses), module
        self.t0 = time.time()
        self.seed = seed()
        self.tmp = tempfile.mkdtemp(prefix="verif_%s_" % prop, dir=os.environ.get("TMPDIR", "/tmp"))
        self.results = []          # exploration results (trees)
        self.verdicts = []         # [tid, node, clause]
        self.kf_lines = []         # [tid, node, signature]
        self.states = 0
        self.transitions = 0
        self.nodes = 0
        self.trees = 0
        self.truncated = 0
        self.machinery = []
        self.other_clause_failures = {}
        self.samples = []
        self.extra = {}
        self.groups = []
        self.gverdicts = []
        self.gkf = []
        self.mc_states = 0
        self.mc_transitions = 0
        self.divergences = 0
        self.triggers = {}         # situation (Props.Triggers) -> number of leaves on whose path it occurred

    def close(self):
        shutil.rmtree(self.tmp, ignore_errors=True)

    # -- exploration + validation ------------------------------------------------------------
    def add_jobs(self, jobs, procs=16, batch_nodes=12000, tlc_workers=16, chunk=96):
        """explore and validate in chunks; once a chunk is validated the observations of its trees are dropped
        (parents, choices and final observations stay: replays and the relational checks need only those) unless
        the check asked to keep them - thousands of full trees do not fit the main process otherwise"""
        jobs = list(jobs)
        for k in range(0, len(jobs), chunk):
            results = explore_all(jobs[k:k + chunk], procs)
            self.add_results(results, batch_nodes, tlc_workers)
            if not self.keep_obs:
                for r in results:
                    if r.get("ok"):
                        r["tree"]["nodes"] = [{"p": n["p"]} for n in r["tree"]["nodes"]]

    def add_mc(self, defs, own, max_pause=0, max_cancel=0, max_steps=14, known=None, replay=True,
               lang="yaql", timeout=900, bound_check=False, max_rerun=0, intended=False):
        """TLC model-checks Spec B + Props on `defs`; the behaviours it generated (leaf schedules,
        and the counterexample if an invariant failed) are replayed into the real conductor and
        validated like explored trees; digest mismatches are divergences."""
        from . import mc
        if len(defs) > 40:
            # large families are model-checked in chunks (TLC's disk state queue fails on these states)
            out = None
            for k in range(0, len(defs), 40):
                out = self.add_mc(defs[k:k + 40], own, max_pause, max_cancel, max_steps, known, replay, lang, timeout,
                                  bound_check, max_rerun, intended)
            return out
        if known is None:
            known = sorted({k["signature"] for k in load_known_findings() if k.get("status", "open") == "open"})
        defs = [dict(d, name="m%d_%s" % (i, d["name"])) for i, d in enumerate(defs)]
        res = mc.run_mc(defs, self.tmp, own, max_pause, max_cancel, max_steps, known, emit=replay,
                        timeout=timeout, tag="mc%d" % len(self.extra.get("mc_runs", [])), bound_check=bound_check,
                        max_rerun=max_rerun, intended=intended)
        info = {"defs": len(defs), "states": res["distinct"], "transitions": res["states"],
                "wall_s": round(res["wall"], 1), "max_pause": max_pause, "max_cancel": max_cancel,
                "max_steps": max_steps, "max_rerun": max_rerun, "deviations": "Intended" if intended else "AsCode",
                "spec_violation": res["violated"], "leaves": len(res["leaves"])}
        if bound_check:
            info["bound_hit"] = res["bound_hit"]
            if res["bound_hit"]:
                cx = _counterexample(res["out"])
                info["bound_hit_schedule"] = cx
                self.machinery.append("Spec B: a behaviour reached the step bound (non-terminating offer?): %s" % cx)
        self.extra.setdefault("mc_runs", []).append(info)
        self.mc_states += res["distinct"]
        self.mc_transitions += res["states"]
        leaves = list(res["leaves"])
        if intended:
            if res["violated"] or res["rc"] != 0:
                self.machinery.append("intended-design model violates a clause (or TLC failed): rc=%s\n%s" % (res["rc"], res["out"][-2500:]))
            return res
        if res["violated"]:
            cx = _counterexample(res["out"])
            if cx:
                leaves.append(cx)
                info["counterexample"] = cx
        elif res["rc"] != 0:
            self.machinery.append("MC tlc rc=%s\n%s" % (res["rc"], res["out"][-3000:]))
        if replay and leaves:
            cap = 1500 if self.tier == "quick" else 2500
            info["leaves_replayed"] = min(len(leaves), cap)
            if len(leaves) > cap:       # a seeded sample of the behaviours is replayed (the counterexample always is)
                keep = leaves[-1:] if res["violated"] else []
                leaves = random.Random(self.seed).sample(leaves, cap - len(keep)) + keep
            rr = mc.replay_leaves(defs, leaves, lang=lang)
            mism = [m for r in rr if r.get("ok") for m in r["mismatches"]]
            self.divergences += len(mism)
            if mism:
                self.extra.setdefault("divergence_samples", []).extend(mism[:3])
            self.add_results(rr, 12000, 16)
        return res

    def add_test_traces(self, paths=("orquesta/tests",)):
        """the repository's own tests as a trace source: record every conductor they drive
        (harness/testrec.py) and validate the traces with spec/TestTrace.tla"""
        from . import testtraces as TT
        try:
            traces, info = TT.record(self.tmp, paths)
            results, stats = TT.to_results(traces)
        except Exception as e:
            import traceback
            self.machinery.append("test-trace recorder: %s\n%s" % (e, traceback.format_exc()[-1500:]))
            return
        stats.update(info)
        self.extra["repo_test_traces"] = stats
        if not results:
            self.machinery.append("test-trace recorder produced no trace: %s" % info)
            return
        module, conform = self.module, self.conform
        self.module, self.conform = "TestTrace", False
        try:
            self.add_results(results, 12000, 16)
        finally:
            self.module, self.conform = module, conform

    def add_groups(self, groups, chunk=4000):
        """groups: [{gid, kind, def (tla shape), members:[{role, fin}], replay: {...}}] -> TLC Groups.tla"""
        from . import tlc
        # chunks are bounded by count and by serialised size (TLC's JSON reader fails on very large files)
        parts, cur, size = [], [], 0
        for g in groups:
            n = len(json.dumps({x: g[x] for x in g if x != "replay"}, separators=(",", ":"), default=str))
            if cur and (len(cur) >= chunk or size + n > 6000000):
                parts.append(cur)
                cur, size = [], 0
            cur.append(g)
            size += n
        if cur:
            parts.append(cur)
        for part in parts:
            base = len(self.groups)
            for i, g in enumerate(part):
                g["gid"] = base + i + 1
            self.groups.extend(part)
            path = os.path.join(self.tmp, "groups_%d.json" % base)
            with open(path, "w") as f:
                json.dump([{x: g[x] for x in g if x != "replay"} for g in part], f, separators=(",", ":"))
            res = tlc.run("Groups", env={"TRACE_FILE": path}, workers=16, timeout=1500, workdir=self.tmp)
            os.unlink(path)
            if res["rc"] != 0 or res["distinct"] != len(part) + min(16, 16):
                self.machinery.append("groups tlc rc=%s distinct=%s expected=%s\n%s" % (
                    res["rc"], res["distinct"], len(part) + 16, res["out"][-3000:]))
            self.states += res["distinct"]
            self.transitions += res["states"]
            for v in tlc.verdicts(res["out"], "G"):
                self.gverdicts.append(v[1:])
            for v in tlc.verdicts(res["out"], "GK"):
                self.gkf.append(v[1:])

    def add_results(self, results, batch_nodes=12000, tlc_workers=16):
        from . import tlc
        bad = [r for r in results if not r["ok"]]
        for b in bad:
            self.machinery.append("explore: " + b["err"][:2000])
        results = [r for r in results if r["ok"]]
        base = len(self.results)
        for i, r in enumerate(results):
            r["tree"]["tid"] = base + i + 1
        self.results.extend(results)
        # batches
        batch, size, batches = [], 0, []
        for r in results:
            n = len(r["tree"]["nodes"])
            if batch and size + n > batch_nodes:
                batches.append(batch)
                batch, size = [], 0
            batch.append(r)
            size += n
        if batch:
            batches.append(batch)
        for bi, b in enumerate(batches):
            path = os.path.join(self.tmp, "batch_%d_%d.json" % (base, bi))
            own = sorted({c[:3] for c in self.clauses})
            known = sorted({k["signature"] for k in load_known_findings() if k.get("status", "open") == "open"})
            for r in b:
                r["tree"]["own"] = own
                r["tree"]["known"] = known
            with open(path, "w") as f:
                json.dump([r["tree"] for r in b], f, separators=(",", ":"))
            res = tlc.run(self.module, env={"TRACE_FILE": path}, workers=tlc_workers, timeout=1500,
                          workdir=self.tmp)
            if self.conform and (self.conform_budget is None or self.conform_nodes < self.conform_budget):
                cres = tlc.run("Conform", env={"TRACE_FILE": path}, workers=tlc_workers, timeout=1500, workdir=self.tmp)
                nb = sum(len(r["tree"]["nodes"]) for r in b)
                if cres["rc"] != 0 or cres["distinct"] != nb + len(b):
                    self.machinery.append("conform tlc rc=%s distinct=%s expected=%s\n%s" % (
                        cres["rc"], cres["distinct"], nb + len(b), cres["out"][-3000:]))
                    os.makedirs(OUT, exist_ok=True)
                    with open(os.path.join(OUT, "tlc_failure_conform_%s.log" % self.prop), "w") as f:
                        f.write(cres["out"])
                    shutil.copy(path, os.path.join(OUT, "tlc_failure_conform_%s.batch.json" % self.prop))
                ds = tlc.verdicts(cres["out"], "D")
                self.divergences += len(ds)
                self.conform_nodes += nb
                for dv in ds[:3]:
                    rr = [r for r in b if r["tree"]["tid"] == dv[1]]
                    if rr:
                        self.extra.setdefault("divergence_samples", []).append(
                            {"def": rr[0]["d"]["name"], "field": dv[3], "schedule": node_schedule(rr[0], dv[2])})
            os.unlink(path)
            vs = tlc.verdicts(res["out"], "V")
            ks = tlc.verdicts(res["out"], "K")
            if self.module == "Trace":
                import re as _re
                for t in tlc._tuples(_re.sub(r'<<\s+"E"', '<<"E"', res["out"]), "E"):    # TLC wraps long sets over lines
                    for name in _re.findall(r'"([a-z_]+)"', t):
                        self.triggers[name] = self.triggers.get(name, 0) + 1
            expected = self._expected_states(b, [v for v in vs if v[3][:3] in own] + ks)
            if res["rc"] != 0 or res["distinct"] != expected:
                self.machinery.append("tlc rc=%s distinct=%s expected=%s\n%s" % (
                    res["rc"], res["distinct"], expected, res["out"][-3000:]))
                os.makedirs(OUT, exist_ok=True)
                with open(os.path.join(OUT, "tlc_failure_%s.log" % self.prop), "w") as f:
                    f.write(res["out"])
            self.states += res["distinct"]
            self.transitions += res["states"]
            for v in vs:
                self.verdicts.append(v[1:])
            for k in ks:
                self.kf_lines.append(k[1:])
        for r in results:
            self.nodes += len(r["tree"]["nodes"])
            self.trees += 1
            self.truncated += 1 if r["truncated"] else 0

    @staticmethod
    def _expected_states(batch, vs):
        failed = {}
        for v in vs:
            failed.setdefault(v[1], set()).add(v[2])
        total = 0
        for r in batch:
            t = r["tree"]
            nodes = t["nodes"]
            bad = failed.get(t["tid"], set())
            if not bad:
                total += 1 + len(nodes)
                continue
            dead = set()
            cnt = 1
            for i, n in enumerate(nodes, 1):      # parents precede children
                if n["p"] in dead:
                    dead.add(i)
                    continue
                cnt += 1
                if i in bad:
                    dead.add(i)
            total += cnt
        return total

    # -- classification -----------------------------------------------------------------------
    def classify(self):
        """-> (violations, known) for this property's clauses; others are only counted."""
        kfs = load_known_findings()
        sig_at = {}
        for tid, node, sig in self.kf_lines:
            sig_at.setdefault((tid, node), set()).add(sig)
        viol, known = [], []
        for tid, node, clause in self.verdicts:
            mine = any(clause.startswith(c) for c in self.clauses)
            if not mine:
                self.other_clause_failures[clause] = self.other_clause_failures.get(clause, 0) + 1
                continue
            sigs = sig_at.get((tid, node), set())
            hit = None
            for k in kfs:
                if k.get("status", "open") != "open":
                    continue
                if k["signature"] in sigs and (clause == k["clause"] or clause in k.get("blast", [])):
                    hit = k
                    break
            (known if hit else viol).append({"tid": tid, "node": node, "clause": clause,
                                             "kf": hit["signature"] if hit else None,
                                             "kfprop": hit["property"] if hit else None})
        gsig = {}
        for gid, sig in self.gkf:
            gsig.setdefault(gid, set()).add(sig)
        for gid, clause in self.gverdicts:
            if not any(clause.startswith(c) for c in self.clauses):
                self.other_clause_failures[clause] = self.other_clause_failures.get(clause, 0) + 1
                continue
            hit = None
            for k in kfs:
                if k.get("status", "open") == "open" and k["signature"] in gsig.get(gid, set()) and (
                        clause == k["clause"] or clause in k.get("blast", [])):
                    hit = k
                    break
            (known if hit else viol).append({"gid": gid, "clause": clause, "tid": "g%d" % gid, "node": 0,
                                             "kf": hit["signature"] if hit else None,
                                             "kfprop": hit["property"] if hit else None})
        return viol, known

    def replay_file(self, v):
        if "gid" in v:
            g = self.groups[v["gid"] - 1]
            os.makedirs(os.path.join(OUT, "replays"), exist_ok=True)
            path = os.path.join(OUT, "replays", "%s_%s_%d_g%d.json" % (self.prop, v["clause"], self.seed, v["gid"]))
            with open(path, "w") as f:
                json.dump({"property": self.prop, "clause": v["clause"], "group": g}, f, indent=1, default=str)
            return path
        r = self.results[v["tid"] - 1]
        os.makedirs(os.path.join(OUT, "replays"), exist_ok=True)
        path = os.path.join(OUT, "replays", "%s_%s_%d_%d.json" % (self.prop, v["clause"], self.seed, v["tid"]))
        with open(path, "w") as f:
            json.dump({"property": self.prop, "clause": v["clause"], "def": r["d"], "env": r["env"],
                       "lang": r["lang"], "tok": r["tok"],
                       "schedule": node_schedule(r, v["node"])}, f, indent=1)
        return path

    # -- evidence + exit ------------------------------------------------------------------------
    # properties with clauses in spec/TestTrace.tla: the repository's own tests are one more trace source
    TT_QUICK = ("C01", "C02", "C03", "C04", "C07", "C09", "C10", "C18", "C19")
    TT_THOROUGH = TT_QUICK + ("C11", "C15", "C17")

    def finish(self, level, rule, assumptions, level_extra=None):
        if "repo_test_traces" not in self.extra and os.environ.get("VERIF_NO_TEST_TRACES") != "1":
            if self.prop in self.TT_QUICK:
                self.add_test_traces(("orquesta/tests/unit/conducting",) if self.tier == "quick" else ("orquesta/tests",))
            elif self.prop in self.TT_THOROUGH and self.tier != "quick":
                self.add_test_traces(("orquesta/tests",))
        viol, known = self.classify()
        # vacuity: the situations this property's clauses are about must have occurred in this run
        if self.results and self.prop in REQUIRED:
            missing = [t for t in REQUIRED[self.prop] if not self.triggers.get(t)]
            if missing:
                self.machinery.append("vacuous run: situation(s) %s never occurred in the explored traces" % missing)
        lines = []
        seen_kf = {}
        for k in known:
            seen_kf.setdefault((k["kfprop"], k["kf"], k["clause"]), 0)
            seen_kf[(k["kfprop"], k["kf"], k["clause"])] += 1
        for (p, sig, clause), n in sorted(seen_kf.items()):
            lines.append("KNOWN-FINDING: property=%s %s clause=%s occurrences=%d" % (self.prop, sig, clause, n))
        vfiles = []
        seen_v = set()
        for v in viol:
            key = (v["clause"], v["tid"])
            if key in seen_v:
                continue
            seen_v.add(key)
            if len(vfiles) < 25:
                path = self.replay_file(v)
                vfiles.append(path)
                lines.append("VIOLATION property=%s replay=%s clause=%s" % (self.prop, path, v["clause"]))
        if not self.samples and self.groups:
            g = self.groups[0]
            self.samples.append({"group": g["kind"], "def": g["def"]["name"], "case": g.get("case"), "fault": g.get("fault"),
                                 "members": [{"role": m["role"], "sched": m.get("sched")} for m in g["members"]][:4]})
        if not self.samples and self.results:
            r = self.results[0]
            leaf = len(r["tree"]["nodes"])
            self.samples.append({"def": r["d"]["name"], "env": r["env"],
                                 "schedule": node_schedule(r, leaf)})
        distinct = len({json.dumps(r["d"]["tasks"], sort_keys=True) + json.dumps(r["env"], sort_keys=True)
                        for r in self.results if len(r["tree"]["nodes"]) > 4})
        distinct += len({json.dumps([g["def"].get("tasks"), g.get("case"), g.get("fault"),
                                     [m.get("sched") for m in g["members"]]], sort_keys=True, default=str)
                         for g in self.groups})
        cov = {
            "states": self.states + self.mc_states, "transitions": self.transitions + self.mc_transitions,
            "spec_b_states": self.mc_states, "trace_validation_states": self.states,
            "spec_vs_code_divergences": self.divergences,
            "steps_conformance_checked": self.conform_nodes,
            "traces_validated_against_impl": self.trees + sum(len(g["members"]) for g in self.groups),
            "groups_validated": len(self.groups),
            "steps_validated_against_impl": self.nodes,
            "evaluations": self.nodes + len(self.groups), "distinct_nontrivial": distinct,
            "rule": rule, "samples": self.samples[:5],
            "truncated_trees": self.truncated,
            "clauses": list(self.clauses),
            "situations_exercised": dict(sorted(self.triggers.items())),
            "known_findings_seen": sorted({k["kf"] for k in known}),
            "violations": len(viol),
            "other_clause_failures": self.other_clause_failures,
            "exhaustive": False,
        }
        cov.update(self.extra)
        cov.update(level_extra or {})
        ev = {"property_id": self.prop, "tier": self.tier, "seed": self.seed, "level": level,
              "coverage": cov, "assumptions": assumptions, "wall_s": round(time.time() - self.t0, 2),
              "violations": len(viol)}
        os.makedirs(EVID, exist_ok=True)
        with open(os.path.join(EVID, self.prop + ".json"), "w") as f:
            json.dump(ev, f, indent=1)
        for ln in lines:
            print(ln)
        self.close()
        if self.machinery:
            for m in self.machinery[:3]:
                sys.stderr.write("MACHINERY FAILURE: " + m + "\n")
            return 2
        if viol:
            return 1
        print("OK property=%s tier=%s trees=%d steps=%d tlc_states=%d known=%d wall=%.1fs" % (
            self.prop, self.tier, self.trees, self.nodes, self.states, len(known), time.time() - self.t0))
        return 0


# situations (Props.Triggers) without which a property's clauses would hold vacuously
REQUIRED = {
    "C01": ["offer", "new_exec", "completion", "wf_succeeded", "cleanup_due"],
    "C02": ["wf_succeeded", "wf_failed", "wf_paused_or_canceled", "wf_pausing_or_canceling"],
    "C03": ["quiescent", "pause_requested", "cancel_requested", "quiescent_after_rerun"],
    "C04": ["after_terminal", "offer_query_after_terminal", "report_after_terminal", "request_rejected"],
    "C05": ["completion", "published"],
    "C06": ["offer", "published", "output_rendered", "join_offer"],
    "C07": ["join_offer", "join_started", "partial_join_at_rest"],
    "C08": ["completion", "wf_succeeded", "wf_failed"],
    "C09": ["held_by_pause", "pause_requested", "resumed_query"],
    "C10": ["cancel_requested", "canceled_render"],
    "C11": ["expr_error", "wf_failed"],
    "C12": ["item_offer", "item_window_partial", "items_task_completed"],
    "C13": ["retried", "retry_offer"],
    "C15": ["completion", "wf_succeeded", "wf_failed"],
    "C17": ["rerun_accepted", "rerun_rejected", "new_exec_after_rerun", "quiescent_after_rerun"],
    "C18": ["record_decided", "published", "rerun_accepted"],
    "C19": ["query_ok"],
}


def _counterexample(out):
    """schedule of the last state of TLC's error trace (variable `sched`), with its definition."""
    import re
    ms = re.findall(r"/\\ sched = (<<.*?>>)\n", out, re.S)
    ds = re.findall(r"/\\ di = (\d+)", out)
    if not ms or not ds:
        return None
    txt = ms[-1].replace("<<", "[").replace(">>", "]")
    try:
        sched = json.loads(txt)
    except Exception:
        return None
    return {"def_index": int(ds[-1]), "sched": sched, "digest": None, "def": None}


def load_known_findings():
    p = os.path.join(ROOT, "known_findings.json")
    if not os.path.exists(p):
        return []
    with open(p) as f:
        return json.load(f).get("findings", [])
