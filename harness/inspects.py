"""C15 (completeness half): apply the single-fault mutants TLC enumerated (spec/Inspect.tla) to the
concrete definition, run the real inspect() and report the observed entries."""

import copy
import json
import multiprocessing as mp
from .par import pmap
import os
import re

from . import defs as D
from . import explore as X
from . import tlc

BROKEN = {"yaql": ["<% 1 +/ 2) %>", "<% ctx(x %>", "<% 'abc %>", "<% 1 ++ %>", "<% ctx().x + %>", "<% ctx(x) 1 %>",
                   "<% ctx('x').len( %>", "<% result() and %>"],
          "jinja": ["{{ 1 +/ 2) }}", "{{ ctx('x' }}", "{{ 'abc }}", "{{ 1 | }}", "{{ ctx().x + }}", "{{ ctx('x') 1 }}",
                    "{{ ctx('x') | }}", "{{ result() and }}"]}


def enumerate_faults(defs, workdir):
    dpath = os.path.join(workdir, "idefs.json")
    with open(dpath, "w") as f:
        json.dump([X.tla_def(d) for d in defs], f)
    res = tlc.run("Inspect", env={"DEFS_FILE": dpath}, workers=16, timeout=900, workdir=workdir)
    out = []
    for m in re.findall(r'<<"F", "(.*)">>', res["out"]):
        out.append(json.loads(m.encode().decode("unicode_escape")))
    return out, res


def unassigned_ref(lang, form):
    v = "zz_unassigned"
    if lang == "yaql":
        return "<% " + ["ctx(%s)" % v, "ctx('%s')" % v, 'ctx("%s")' % v, "ctx().%s" % v][form % 4] + " %>"
    return "{{ " + ["ctx('%s')" % v, 'ctx("%s")' % v, "ctx().%s" % v, "ctx('%s')" % v][form % 4] + " }}"


def apply_fault(spec, d, ft, lang, variant=0):
    """mutate the concrete spec dict in place"""
    kind, t, pos, ti = ft["kind"], ft["task"], ft["pos"], ft["ti"]
    tasks = spec["tasks"]
    if kind == "undefined":
        do = tasks[t]["next"][ti].setdefault("do", [])
        do[ft["k"] - 1] = "undefined_task_x"
        return
    if kind == "reserved":
        new = pos
        tasks[new] = tasks.pop(t)
        for td in tasks.values():
            for n in td.get("next", []):
                if "do" in n:
                    n["do"] = [new if x == t else x for x in n["do"]]
        return
    if kind == "nostart":
        roots, _ = D.reachable(d)
        last = sorted(tasks)[-1]
        tasks[last].setdefault("next", []).append({"do": list(roots)})
        return
    e = BROKEN[lang][variant % len(BROKEN[lang])] if kind == "grammar" else unassigned_ref(lang, ft["form"])
    # selfref: the entry assigns the very name its expression reads (nothing assigns it earlier)
    wkey, pkey = ("zz_unassigned", "zz_unassigned") if kind == "selfref" else ("w_fault", "p_fault")
    if kind == "selfref" and pos == "publish":
        tasks[t]["next"][ti]["publish"] = [{pkey: e}]
        return
    if pos == "vars":
        spec.setdefault("vars", []).append({wkey: e})
    elif pos == "output":
        spec.setdefault("output", []).append({wkey: e})
    elif pos == "action":
        tasks[t]["action"] = e
    elif pos == "input":
        tasks[t]["input"] = {"p_fault": e}
    elif pos == "delay":
        tasks[t]["delay"] = e
    elif pos == "items":
        tasks[t]["with"]["items"] = e
    elif pos == "conc":
        tasks[t]["with"]["concurrency"] = e
    elif pos == "rwhen":
        tasks[t]["retry"]["when"] = e
    elif pos == "rcount":
        tasks[t]["retry"]["count"] = e
    elif pos == "rdelay":
        tasks[t]["retry"]["delay"] = e
    elif pos == "when":
        tasks[t]["next"][ti]["when"] = e
    elif pos == "publish":
        tasks[t]["next"][ti]["publish"] = [{"p_fault": e}]
    else:
        raise ValueError(pos)


PATH = [
    (r"^tasks\.(\w+)\.next\[(\d+)\]\.do", lambda m: (m.group(1), "do", int(m.group(2)))),
    (r"^tasks\.(\w+)\.next\[(\d+)\]\.when", lambda m: (m.group(1), "when", int(m.group(2)))),
    (r"^tasks\.(\w+)\.next\[(\d+)\]\.publish", lambda m: (m.group(1), "publish", int(m.group(2)))),
    (r"^tasks\.(\w+)\.with\.items", lambda m: (m.group(1), "items", -1)),
    (r"^tasks\.(\w+)\.with\.concurrency", lambda m: (m.group(1), "conc", -1)),
    (r"^tasks\.(\w+)\.retry\.when", lambda m: (m.group(1), "rwhen", -1)),
    (r"^tasks\.(\w+)\.retry\.count", lambda m: (m.group(1), "rcount", -1)),
    (r"^tasks\.(\w+)\.retry\.delay", lambda m: (m.group(1), "rdelay", -1)),
    (r"^tasks\.(\w+)\.action", lambda m: (m.group(1), "action", -1)),
    (r"^tasks\.(\w+)\.input", lambda m: (m.group(1), "input", -1)),
    (r"^tasks\.(\w+)\.delay", lambda m: (m.group(1), "delay", -1)),
    (r"^tasks\.(\w+)$", lambda m: (m.group(1), "task", -1)),
    (r"^tasks$", lambda m: ("none", "tasks", -1)),
    (r"^vars", lambda m: ("none", "vars", -1)),
    (r"^output", lambda m: ("none", "output", -1)),
]


def entries_of(report):
    out = []
    for cat, es in report.items():
        for e in es:
            sp = e.get("spec_path") or ""
            hit = ("none", "other", -1)
            for rx, fn in PATH:
                m = re.match(rx, sp)
                if m:
                    hit = fn(m)
                    break
            out.append({"cat": cat, "task": hit[0], "pos": hit[1], "ti": hit[2]})
    return out


def _job(job):
    d, ft, expect, lang, variant = job
    from .real import native_specs
    try:
        spec = D.concretise(d, lang)
        apply_fault(spec, d, ft, lang, variant)
        try:
            rep = native_specs.WorkflowSpec(copy.deepcopy(spec)).inspect()
            ents = entries_of(rep)
            err = "none"
        except Exception as e:
            ents, err = [], type(e).__name__
        return {"kind": "inspect", "def": X.tla_def(d), "fault": ft, "expect": expect,
                "members": [{"role": "obs", "fin": {"entries": ents, "accepted": not ents, "exc": err}, "sched": [lang, variant]}],
                "replay": {"def": d, "fault": ft, "lang": lang, "spec": spec}}
    except Exception as e:
        import traceback
        return {"error": "%s: %s %s" % (type(e).__name__, e, traceback.format_exc()[-500:])}


def inspect_groups(defs, faults, seed=0, cap=None):
    import random
    rng = random.Random(seed)
    by = {d["name"]: d for d in defs}
    jobs = []
    for i, f in enumerate(faults):
        d = by[f["def"]]
        if f["fault"]["kind"] == "grammar":
            # every entry of the broken-expression corpus, both languages
            for lang in ("yaql", "jinja"):
                for v in range(len(BROKEN[lang])):
                    if (i + v + seed) % 3 == 0 or f["fault"]["pos"] in ("when", "publish", "vars"):
                        jobs.append((d, f["fault"], f["expect"], lang, v))
        else:
            jobs.append((d, f["fault"], f["expect"], ("yaql", "jinja")[(i + seed) % 2], (i // 2 + seed) % 4))
    if cap and len(jobs) > cap:
        # the structural faults (undefined target, reserved name, no start task, self reference) are few and are
        # always kept; the cap samples the expression faults
        keep = [j for j in jobs if j[1]["kind"] in ("undefined", "reserved", "nostart", "selfref")]
        rest = [j for j in jobs if j[1]["kind"] not in ("undefined", "reserved", "nostart", "selfref")]
        jobs = keep + rng.sample(rest, max(0, min(len(rest), cap - len(keep))))
    outs = pmap(_job, jobs)
    return [o for o in outs if "error" not in o], [o for o in outs if "error" in o]
