"""The repository's own tests as a trace source (DESIGN.md 4.3).

record()      runs /repo's test suite under harness/testrec.py (no change to /repo) and returns the
              recorded conductor traces;
to_results()  turns them into the chain-shaped "trees" spec/TestTrace.tla reads: the structural
              definition (graph only), the steps up to the first call a disciplined provider would
              not make, identical traces merged.
"""

import glob
import hashlib
import json
import os
import subprocess
import sys

from . import explore as X
from . import defs as D

REPO = os.environ.get("ORQUESTA_REPO", "/repo")
ROOT = os.path.dirname(os.path.dirname(os.path.abspath(__file__)))

REQ_ALPHABET = ("running", "pausing", "paused", "resuming", "canceling", "canceled", "failed")
ACTION_ALPHABET = ("requested", "scheduled", "delayed", "running", "pending", "pausing", "paused", "resuming",
                   "canceling", "canceled", "succeeded", "failed", "timeout", "abandoned")
OPEN = ("requested", "scheduled", "delayed", "running", "pausing", "canceling", "resuming", "pending", "paused",
        "retrying")


def ok_rets():
    """the exception classes the engine documents for its API (orquesta/exceptions.py of /repo)"""
    if REPO not in sys.path:
        sys.path.insert(0, REPO)
    from orquesta import exceptions as exc
    return sorted(n for n, v in vars(exc).items() if isinstance(v, type) and issubclass(v, Exception))


def record(tmp, paths=("orquesta/tests",), procs=8, timeout=900):
    out = os.path.join(tmp, "rec")
    env = dict(os.environ, PYTHONPATH=ROOT + os.pathsep + REPO, VERIF_REC_DIR=out, PYTHONHASHSEED="0")
    cmd = [sys.executable, "-m", "pytest", "-q", "-p", "no:cacheprovider", "-p", "harness.testrec",
           "-n", str(procs), "--timeout=300"] + list(paths)
    p = subprocess.run(cmd, cwd=REPO, env=env, stdout=subprocess.PIPE, stderr=subprocess.STDOUT, text=True,
                       timeout=timeout)
    traces = []
    for f in sorted(glob.glob(os.path.join(out, "traces.*.json"))):
        with open(f) as fh:
            traces.extend(json.load(fh))
        os.unlink(f)
    tail = p.stdout.strip().splitlines()[-1] if p.stdout.strip() else ""
    return traces, {"pytest_rc": p.returncode, "pytest_tail": tail}


def pseudo_def(name, struct):
    tasks = {}
    for t, s in struct.items():
        j = s["join"]
        join = 0 if j is None else (-2 if j == 0 else j)
        tasks[t] = D.task(join=join, items=(0 if s["items"] else -1),
                          next=[D.tr(do=[x for x in do]) for do in s["next"]])
    return D.wf(name, tasks)


def _disciplined(step, offered, obs):
    c = step["call"]
    if c["op"] == "req":
        return c["st"] in REQ_ALPHABET
    if c["op"] == "report":
        if c["st"] not in ACTION_ALPHABET or c["route"] < 0:
            return False
        key = "%s__r%d" % (c["task"], c["route"])
        if (c["task"], c["route"]) in offered:
            return True
        i = obs["ptr"].get(key) if obs else None
        return i is not None and obs["seq"][i]["st"] in OPEN
    return True


def to_results(traces, max_nodes=400):
    """-> (results for pipeline.Run.add_results, stats)"""
    okr = ok_rets()
    seen, results = {}, []
    stats = {"conductors": len(traces), "steps_recorded": sum(len(t["steps"]) for t in traces),
             "cut_undisciplined": 0, "broken": 0, "no_structure": 0, "merged": 0}
    for t in traces:
        if t.get("broken"):
            stats["broken"] += 1
        if not isinstance(t.get("spec"), dict) or "error" in t["spec"] or not t["spec"]:
            stats["no_structure"] += 1
            continue
        steps, offered, obs = [], set(), None
        for s in t["steps"][:max_nodes]:
            if not _disciplined(s, offered, obs):
                stats["cut_undisciplined"] += 1
                break
            steps.append(s)
            obs = s["obs"]
            if s["call"]["op"] in ("new", "tamper"):
                offered = set()
            if obs["q"]:
                offered = {(o["id"], o["route"]) for o in obs["offers"]}
        if len(steps) < 2:
            continue
        key = hashlib.sha1(json.dumps([t["spec"], steps], sort_keys=True).encode()).hexdigest()
        if key in seen:
            stats["merged"] += 1
            seen[key]["env"]["tests"] += 1
            continue
        name = "test_%d" % (len(results) + 1)
        d = pseudo_def(name, t["spec"])
        nodes = []
        for i, s in enumerate(steps, 1):
            n = dict(s)
            n["p"] = i - 1
            n["kids"] = [i + 1] if i < len(steps) else []
            nodes.append(n)
        tree = {"def": X.tla_def(d), "roots": [1], "nodes": nodes, "okrets": okr}
        sched = [None] + [[s["call"]["op"], s["call"]["task"], s["call"]["route"], s["call"]["item"],
                           s["call"]["st"], s["ret"]] for s in steps]
        r = {"ok": True, "tree": tree, "sched": sched, "truncated": False, "leaves": [len(steps)], "fins": {},
             "d": d, "env": {"source": "pytest", "test": t["test"], "tests": 1}, "lang": "as written", "tok": "n/a"}
        seen[key] = r
        results.append(r)
    stats["traces_validated"] = len(results)
    stats["steps_validated"] = sum(len(r["tree"]["nodes"]) for r in results)
    return results, stats
