"""The real conductor (built from /repo's working tree) behind the spec's action alphabet.

`Real` owns one WorkflowConductor plus the provider's bookkeeping (which actions are out, what they
last reported, accumulated with-items results).  Every API call goes through `_call`, which
records one step  {"call":…, "ret":…, "obs":…}  where `obs` is the projection of §2.3 of DESIGN.md.
Nothing here judges anything: verdicts are TLC's (spec/Props.tla via spec/Trace.tla).
"""

import copy
import os
import sys

REPO = os.environ.get("ORQUESTA_REPO", "/repo")
if REPO not in sys.path:
    sys.path.insert(0, REPO)

import orquesta  # noqa: E402

assert os.path.realpath(orquesta.__file__).startswith(os.path.realpath(REPO) + os.sep), (
    "orquesta imported from %s, not from %s" % (orquesta.__file__, REPO))

from orquesta import conducting, events, statuses  # noqa: E402
from orquesta import exceptions as exc  # noqa: E402
from orquesta import requests as orq_requests  # noqa: E402
from orquesta.specs import native as native_specs  # noqa: E402

from . import defs as D  # noqa: E402

ACTIVE_ACTION = ("requested", "scheduled", "delayed", "running", "pausing", "canceling", "resuming")
DORMANT_ACTION = ("pending", "paused")
DONE_ACTION = ("succeeded", "failed", "timeout", "abandoned", "canceled")
FATE = {"s": "succeeded", "f": "failed", "t": "timeout", "a": "abandoned", "c": "canceled",
        "p": "pending", "P": "pausing", "C": "canceling"}


def enc(v):
    """Type-tagged value -> sequence of ints (uniform for TLC). int k -> [0,k]; list of ints ->
    [1,…]; None -> [2]; bool -> [3,b]; str -> [4,codepoints…]; anything else -> [9, hash…]."""
    if isinstance(v, bool):
        return [3, int(v)]
    if isinstance(v, int):
        return [0, v] if abs(v) < 2 ** 30 else [9, v % 65521]
    if v is None:
        return [2]
    if isinstance(v, list) and all(isinstance(x, int) and not isinstance(x, bool) for x in v):
        return [1] + list(v)
    if isinstance(v, list) and all(x is None or (isinstance(x, int) and not isinstance(x, bool)) for x in v):
        return [1] + [(-1 if x is None else x) for x in v]
    if isinstance(v, str):
        return [4] + [ord(ch) for ch in v][:24]
    return [9, hash(repr(v)) % 65521]


def enc_ctx(ctx):
    return {k: enc(v) for k, v in ctx.items() if not k.startswith("__")}


def err_class(e):
    m = e.get("message", "")
    if m.startswith("Execution failed."):
        return "exec_failed"
    if m.startswith("UnreachableJoinError"):
        return "unreachable_join"
    head = m.split(":", 1)[0]
    if "EvaluationException" in head or "ExpressionEvaluationException" in head:
        return "expr"
    if head in ("TypeError", "ValueError", "KeyError", "AttributeError", "IndexError"):
        return "expr"     # render-time type errors (delay not an int, items not a list, …)
    return "other"


class Real(object):
    def __init__(self, d, lang="yaql", form=0, tok="task", inputs=None):
        self.d = d
        self.lang, self.form, self.tok = lang, form, tok
        self.names = sorted(d["tasks"])
        self.specdict = D.concretise(d, lang, form)
        self.spec = native_specs.WorkflowSpec(copy.deepcopy(self.specdict))
        self.c = conducting.WorkflowConductor(self.spec, inputs=inputs)
        self.acts = {}      # (task, route, item) -> action status last reported
        self.cyc = {}       # (task, route, item) -> has gone through a pause cycle
        self.visit = {}     # task -> number of executions started
        self.vis_of = {}    # (task, route) -> visit number of the open/last execution
        self.acc = {}       # (task, route) -> accumulated item results
        self.steps = []
        self.started = False
        self.keep_acc = set()
        self.persist_points = None   # None | "all" | set of call ordinals after which to persist+restore
        self.ncalls = 0
        self.reser = []              # (digest before, digest after re-serialising the restored conductor)
        self.use_delayed = False     # an action offered with a delay is first reported `delayed`, later `running`

    # ---- snapshots ---------------------------------------------------------------------------
    def clone(self):
        """Deep copy that preserves aliasing inside the conductor's state (copy.deepcopy memo),
        shares the immutable spec, and starts an empty step log."""
        c = self.c
        n = Real.__new__(Real)
        n.d, n.lang, n.form, n.tok, n.names = self.d, self.lang, self.form, self.tok, self.names
        n.specdict, n.spec = self.specdict, self.spec
        nc = conducting.WorkflowConductor(self.spec)
        memo = {id(c): nc, id(self.spec): self.spec}
        for k, v in c.__dict__.items():
            if k in ("spec", "catalog", "spec_module", "composer"):
                nc.__dict__[k] = v
            else:
                nc.__dict__[k] = copy.deepcopy(v, memo)
        n.c = nc
        n.acts, n.cyc = dict(self.acts), dict(self.cyc)
        n.visit, n.vis_of = dict(self.visit), dict(self.vis_of)
        n.acc = {k: list(v) for k, v in self.acc.items()}
        n.steps = []
        n.started = self.started
        n.persist_points, n.ncalls, n.reser = self.persist_points, self.ncalls, list(self.reser)
        n.keep_acc = set(self.keep_acc)
        n.use_delayed = self.use_delayed
        return n

    # ---- projection --------------------------------------------------------------------------
    def project(self, offers=None):
        c = self.c
        ws = c.workflow_state
        seq = []
        for e in ws.sequence:
            r = e.get("retry")
            seq.append({
                "id": e["id"], "route": e["route"], "st": e.get("status", "null"),
                "term": bool(e.get("term", False)),
                "prev": {k: v for k, v in sorted(e.get("prev", {}).items())},
                "next": {k: bool(v) for k, v in sorted(e.get("next", {}).items())},
                "ctxin": list(e["ctxs"]["in"]),
                "hasretry": r is not None,
                "rcount": (r.get("count") if r and isinstance(r.get("count"), int) else -1),
                "rtally": (r.get("tally", 0) if r else 0),
                "rdelay": (r.get("delay") if r and isinstance(r.get("delay"), int) else -1),
            })
        staged = []
        for s in ws.staged:
            staged.append({
                "id": s["id"], "route": s["route"], "ready": bool(s["ready"]),
                "ctxin": list(s["ctxs"]["in"]),
                "prev": {k: v for k, v in sorted(s.get("prev", {}).items())},
                "hasitems": "items" in s,
                "items": [it.get("status", "null") for it in s.get("items", [])],
                "completed": bool(s.get("completed", False)),
                "rof": bool(s.get("run_on_fail", False)),
                "retry": "retry" in s,
            })
        errs = []
        for e in c.errors:
            pe = {"cls": err_class(e), "task": e.get("task_id") or "none",
                  "route": e.get("route") if e.get("route") is not None else -1,
                  "tr": e.get("task_transition_id") or "none", "res": enc(e.get("result"))}
            if pe not in errs:      # one entry per (class, task, route, transition, result)
                errs.append(pe)
        out = c.get_workflow_output()
        infl = sorted([list(k) for k, st in self.acts.items() if st in ACTIVE_ACTION])
        dorm = sorted([list(k) for k, st in self.acts.items() if st in DORMANT_ACTION])
        obs = {
            "wf": ws.status,
            "seq": seq, "staged": staged,
            "ctxs": [enc_ctx(x) for x in ws.contexts],
            "routes": [list(r) for r in ws.routes],
            "ptr": {k: v for k, v in sorted(ws.tasks.items())},
            "errs": errs,
            "hasout": out is not None,
            "out": enc_ctx(out) if out else {},
            "reruns": [list(r) for r in ws.reruns],
            "infl": infl, "dorm": dorm,
            "q": offers is not None,
            "offers": offers if offers is not None else [],
        }
        return obs

    def _offers(self, tasks):
        out = []
        for t in tasks:
            out.append({
                "id": t["id"], "route": t["route"],
                "items": [a["item_id"] for a in t["actions"] if "item_id" in a],
                "nitems": t.get("items_count", -1),
                "nact": len(t["actions"]),
                "delay": t["delay"] if isinstance(t.get("delay"), int) else -1,
                "ctx": enc_ctx(t["ctx"]),
            })
        return out

    # ---- one API call = one recorded step ----------------------------------------------------
    def _call(self, call, fn):
        offers = None
        extra = {"offers2": [], "pers2": True}
        try:
            r = fn()
            ret = "ok"
            if call["op"] == "query":
                offers = self._offers(r)
                p1 = self.persisted_digest()
                r2 = self.c.get_next_tasks()
                extra["offers2"] = self._offers(r2)
                extra["pers2"] = (p1 == self.persisted_digest())
        except Exception as e:  # the property C11/C15 clauses look at the class name
            ret = type(e).__name__
            if call["op"] == "query":
                offers = []
        step = {"call": call, "ret": ret, "obs": self.project(offers)}
        step.update(extra)
        self.steps.append(step)
        self.ncalls += 1
        pp = self.persist_points
        if pp is not None and call["op"] != "persist" and (pp == "all" or self.ncalls in pp):
            self._persist_restore()
        return step

    def _persist_restore(self):
        import hashlib, json
        s1 = self.c.serialize()
        self.c = conducting.WorkflowConductor.deserialize(s1)
        s2 = self.c.serialize()
        dg = lambda x: hashlib.sha1(json.dumps(x, sort_keys=True, default=str).encode()).hexdigest()
        self.reser.append([dg(s1), dg(s2)])

    def fin(self):
        """Final observation of a run, for the relational checks (spec/Groups.tla)."""
        o = self.project()
        return {"wf": o["wf"], "execd": dict(self.visit), "errs": o["errs"], "out": o["out"],
                "hasout": o["hasout"],
                "pubs": sorted(o["ctxs"][1:], key=lambda x: __import__("json").dumps(x, sort_keys=True)),
                "rest": not [k for k, st in self.acts.items() if st in ACTIVE_ACTION],
                "nseq": len(o["seq"])}

    def trail(self):
        """Per API call: (offers, digest of the persisted form) - what C05 compares step by step."""
        import hashlib, json
        out = []
        for s in self.steps:
            if s["call"]["op"] == "persist":
                continue
            o = dict(s["obs"])
            for k in ("infl", "dorm", "q", "offers"):
                o.pop(k, None)
            out.append([s["call"]["op"], s["ret"],
                        hashlib.sha1(json.dumps(o, sort_keys=True).encode()).hexdigest()[:16],
                        hashlib.sha1(json.dumps(s["obs"]["offers"], sort_keys=True).encode()).hexdigest()[:16]])
        return out

    @staticmethod
    def mkcall(op, task="none", route=-1, item=-1, st="none", res=None, arg=None, acc=None):
        return {"op": op, "task": task, "route": route, "item": item, "st": st,
                "res": enc(res), "acc": enc(acc), "arg": arg if arg is not None else []}

    def persisted_digest(self):
        import hashlib, json
        s = self.c.serialize()
        s.pop("spec", None)
        return hashlib.sha1(json.dumps(s, sort_keys=True, default=str).encode()).hexdigest()

    def new(self):
        pp = self.persist_points
        if pp is not None and pp != "all" and 0 in pp:
            self._persist_restore()          # persisted right after construction, before any call
        return self._call(self.mkcall("new"), lambda: self.c.get_workflow_status())

    def req(self, status):
        return self._call(self.mkcall("req", st=status), lambda: self.c.request_workflow_status(status))

    def query(self):
        return self._call(self.mkcall("query"), lambda: self.c.get_next_tasks())

    def render(self):
        return self._call(self.mkcall("render"), lambda: self.c.render_workflow_output())

    def persist(self):
        def f():
            self.c = conducting.WorkflowConductor.deserialize(self.c.serialize())
        return self._call(self.mkcall("persist"), f)

    def rerun(self, reqs):
        """reqs: list of [task, route, reset_items]; empty list = default."""
        def f():
            tr = [orq_requests.TaskRerunRequest.new(t, route=r, reset_items=bool(x)) for t, r, x in reqs]
            self.c.request_workflow_rerun(task_requests=tr or None)
        st = self._call(self.mkcall("rerun", arg=[[t, r, int(x)] for t, r, x in reqs]), f)
        if st["ret"] == "ok":
            resets = {(t, r) for t, r, x in reqs if x}
            for (t, r), acc in self.acc.items():
                if (t, r) not in resets and self.d["tasks"].get(t, {}).get("items", -1) > 0:
                    self.keep_acc.add((t, r))
        return st

    def token(self, task, route, item):
        ti = self.names.index(task) if task in self.names else 7
        v = self.vis_of.get((task, route), 0) if self.tok == "visit" else 0
        rs = self.d.get("results", {}).get(task)
        if rs and item < 0:
            return rs[min(self.vis_of.get((task, route), 0), len(rs) - 1)]
        return (ti + 1) * 1000 + v * 10 + (item + 1)

    def start(self, task, route, item=-1, delay=0):
        key = (task, route, item)
        first = statuses.RUNNING
        rec0 = self.c.get_task_state_entry(task, route)
        # acknowledgments are generated for the first action of a fresh execution of a plain task only: for the items
        # of a with-items task and for retry attempts the task tables have no rows for them (DESIGN.md 0.2)
        plain_fresh = (item < 0 and self.d["tasks"].get(task, {}).get("items", -1) < 0
                       and (rec0 is None or rec0.get("status") in statuses.COMPLETED_STATUSES))
        if plain_fresh and self.use_delayed and isinstance(delay, int) and delay > 0:
            first = statuses.DELAYED
        elif plain_fresh and self.use_delayed == "all":
            first = statuses.REQUESTED        # the provider acknowledges the request before the action runs
        elif plain_fresh and self.use_delayed == "pending" and "p" in self.d["fates"].get(task, []):
            first = statuses.PENDING          # an inquiry: the action waits for a response from its very first report
        rec = self.c.get_task_state_entry(task, route)
        fresh = rec is None or rec.get("status") in statuses.COMPLETED_STATUSES + ["retrying", None]
        if fresh:
            self.vis_of[(task, route)] = self.visit.get(task, 0)
            self.visit[task] = self.visit.get(task, 0) + 1
            if (task, route) in self.keep_acc:
                self.keep_acc.discard((task, route))      # rerun without reset keeps the items already done
            else:
                self.acc[(task, route)] = []
            for k in [k for k in self.acts if k[0] == task and k[1] == route]:
                del self.acts[k]
        if item >= 0:
            ev = events.TaskItemActionExecutionEvent(item, first)
        else:
            ev = events.ActionExecutionEvent(first)
        self.acts[key] = first
        st = self._call(self.mkcall("start", task, route, item, first),
                        lambda: self.c.update_task_state(task, route, ev))
        if st["ret"] != "ok":
            self.acts.pop(key, None)
            st["obs"] = self.project(None)
        return st

    def report(self, task, route, item, status):
        key = (task, route, item)
        res = None
        td = self.d["tasks"].get(task, {})
        if status in DONE_ACTION:
            res = self.token(task, route, item)
            if item < 0 and td.get("items", -1) == 0:
                res = []
        if item >= 0:
            acc = self.acc.setdefault((task, route), [])
            while len(acc) <= item:
                acc.append(None)
            if status in DONE_ACTION:
                acc[item] = res
            ev = events.TaskItemActionExecutionEvent(item, status, result=res,
                                                     accumulated_result=list(acc))
        else:
            ev = events.ActionExecutionEvent(status, result=res)
        self.acts[key] = status
        if status == "pausing":
            self.cyc[key] = True
        call = self.mkcall("report", task, route, item, status, res=res,
                           acc=(list(self.acc.get((task, route), [])) if item >= 0 else None))
        return self._call(call, lambda: self.c.update_task_state(task, route, ev))

    # ---- the disciplined provider ------------------------------------------------------------
    def settle(self):
        """Eager discipline: query, then start everything on offer (whole batches)."""
        q = self.query()
        if q["ret"] != "ok":
            return q
        for o in q["obs"]["offers"]:
            t, r = o["id"], o["route"]
            if o["nitems"] >= 0:
                if o["nitems"] == 0:
                    if self.acts.get((t, r, -1)) not in ACTIVE_ACTION:
                        self.start(t, r, -1)
                else:
                    for i in o["items"]:
                        self.start(t, r, i, o["delay"])
            else:
                self.start(t, r, -1, o["delay"])
        return q

    def boot(self):
        self.new()
        self.req("running")
        self.started = True
        self.settle()

    def acts_dormant(self):
        return [k for k, st in self.acts.items() if st in DORMANT_ACTION]

    def report_choices(self, held=False, canceled=False):
        """[task, route, item, status] for every report the provider may make now.
        held: a workflow pause request is outstanding (children are not resumed bottom-up);
        canceled: cancellation was requested (children do not start a pause cycle)."""
        out = []
        for (t, r, i), st in sorted(self.acts.items()):
            fates = self.d["fates"].get(t, ["s"])
            empty = i < 0 and self.d["tasks"].get(t, {}).get("items", -1) == 0
            rec = self.c.get_task_state_entry(t, r)
            rec_done = rec is not None and rec.get("status") in statuses.COMPLETED_STATUSES
            if st == "running":
                for f in fates:
                    if empty and f != "s":
                        continue
                    if f == "p" and i >= 0:
                        continue      # pending items of a with-items task are not generated (DESIGN.md 2.2)
                    if f == "P" and (self.cyc.get((t, r, i)) or canceled):
                        continue
                    out.append([t, r, i, FATE[f]])
            elif st in ("delayed", "requested"):
                out.append([t, r, i, "running"])          # the delay has passed / the action has begun
            elif st == "pending":
                for f in fates:
                    if f in "sf":
                        out.append([t, r, i, FATE[f]])
            elif st == "pausing":
                out.append([t, r, i, "paused"])
            elif st == "paused":
                # an action of a task execution that has already completed is not resumed any more
                wf_done = self.c.get_workflow_status() in statuses.COMPLETED_STATUSES
                if not held and not canceled and not rec_done and not wf_done:
                    # a with-items item has no row for `resuming`; it goes back to running directly
                    out.append([t, r, i, "resuming" if i < 0 else "running"])
            elif st == "resuming":
                out.append([t, r, i, "running"])
            elif st == "canceling":
                out.append([t, r, i, "canceled"])
        return out

    def apply(self, ch):
        """Apply one environment choice, then (eager) settle. Returns the steps it produced."""
        n0 = len(self.steps)
        op = ch[0]
        if op == "rep":
            self.report(ch[1], ch[2], ch[3], ch[4])
        elif op == "req":
            self.req(ch[1])
        elif op == "rerun":
            self.rerun(ch[1])
        elif op == "render":
            self.render()
        elif op == "persist":
            self.persist()
        elif op == "boot":
            self.boot()
            return self.steps[n0:]
        else:
            raise ValueError(ch)
        if op != "render":
            self.settle()
        return self.steps[n0:]

    def key(self):
        """Hashable identity of (persisted state, provider state) for the explorer's visited set."""
        import json
        s = self.c.serialize()
        s.pop("spec", None)
        s.pop("graph", None)
        return json.dumps([s, sorted((list(k), v) for k, v in self.acts.items()),
                           sorted((list(k), v) for k, v in self.acc.items()),
                           sorted(self.visit.items())], sort_keys=True, default=str)
