"""Families of abstract definitions: curated shapes + seeded random generation from the grammar of
DESIGN.md 3.4.  Every definition returned here has passed the real `inspect()`."""

import copy
import random

from . import defs as D

T = D.task


def curated():
    out = []
    A = ["s", "f"]
    out.append(D.wf("seq", {"t1": T(next=[dict(do=["t2"])]), "t2": T(next=[dict(when="succeeded", do=["t3"])]), "t3": T()},
                    fates={"t1": A, "t2": A, "t3": A}))
    out.append(D.wf("fork", {"t1": T(next=[dict(when="succeeded", do=["t2", "t3"])]), "t2": T(), "t3": T()},
                    fates={"t1": A, "t2": A, "t3": A}))
    out.append(D.wf("diamond", {
        "t1": T(next=[dict(when="succeeded", pub=[["x", "res"]], do=["t2", "t3"])]),
        "t2": T(next=[dict(when="succeeded", pub=[["y", "res"]], do=["t4"])]),
        "t3": T(next=[dict(when="succeeded", do=["t4"])]),
        "t4": T(join=-1)}, vars=[["x", 0]], output=[["o", "ctx:x"]],
        fates={"t1": A, "t2": A, "t3": A, "t4": A}))
    out.append(D.wf("decision", {
        "t1": T(next=[dict(when="succeeded", do=["t2"]), dict(when="failed", do=["t3"])]),
        "t2": T(), "t3": T()}, fates={"t1": A, "t2": A, "t3": A}))
    out.append(D.wf("handler_noop", {
        "t1": T(next=[dict(when="failed", do=["noop"]), dict(when="succeeded", do=["t2"])]),
        "t2": T()}, fates={"t1": A, "t2": A}))
    out.append(D.wf("handler_fail", {
        "t1": T(next=[dict(when="succeeded", do=["t2", "fail"])]),
        "t2": T(next=[dict(do=["t3"])]), "t3": T()}, fates={"t1": A, "t2": A, "t3": A}))
    out.append(D.wf("log_fail", {
        "t1": T(next=[dict(when="failed", do=["t2", "fail"]), dict(when="succeeded", do=["t3"])]),
        "t2": T(), "t3": T()}, fates={"t1": A, "t2": A, "t3": A}))
    out.append(D.wf("join_count", {
        "t1": T(next=[dict(do=["t5"])]), "t2": T(next=[dict(when="succeeded", do=["t5"])]),
        "t3": T(next=[dict(when="succeeded", do=["t5"])]), "t5": T(join=2)},
        fates={"t1": A, "t2": A, "t3": A, "t5": ["s"]}))
    out.append(D.wf("join_partial", {
        "t1": T(next=[dict(when="succeeded", do=["t3"]), dict(when="failed", do=["noop"])]),
        "t2": T(next=[dict(when="succeeded", do=["t3"]), dict(when="failed", do=["noop"])]),
        "t3": T(join=-1)}, fates={"t1": A, "t2": A, "t3": ["s"]}))
    out.append(D.wf("split", {
        "t1": T(next=[dict(when="succeeded", do=["t2", "t3"])]),
        "t2": T(next=[dict(pub=[["a", "res"]], do=["t4"])]),
        "t3": T(next=[dict(pub=[["a", "res"]], do=["t4"])]),
        "t4": T(next=[dict(when="succeeded", do=["t5"])]), "t5": T()},
        output=[["o", "ctx:a"]], fates={"t1": ["s"], "t2": A, "t3": A, "t4": A, "t5": ["s"]}))
    out.append(D.wf("split_join", {
        "t1": T(next=[dict(do=["t2", "t3"])]),
        "t2": T(next=[dict(do=["t4"])]), "t3": T(next=[dict(do=["t4"])]),
        "t4": T(next=[dict(do=["t5", "t6"])]),
        "t5": T(next=[dict(do=["t7"])]), "t6": T(next=[dict(do=["t7"])]), "t7": T(join=-1)},
        fates={"t5": A}))
    # two roots feed a multiply-referenced task (a split: one route per root) followed by a fork and a join
    out.append(D.wf("two_roots_split_join", {
        "p1": T(next=[dict(do=["s"])]), "p2": T(next=[dict(do=["s"])]),
        "s": T(next=[dict(do=["a", "b"])]),
        "a": T(next=[dict(do=["j"])]), "b": T(next=[dict(do=["j"])]),
        "j": T(join=-1, next=[dict(do=["z"])]), "z": T()},
        fates={"z": A}))
    # a task whose result is falsy (0): the conditions and publishes that read it see 0, not null
    d0 = D.wf("falsy_result", {
        "t1": T(next=[dict(when="res=0", pub=[["x", "res"]], do=["t2"]), dict(when="res=1", pub=[["x", "res"]], do=["t3"])]),
        "t2": T(), "t3": T()}, vars=[["x", 5]], output=[["ox", "ctx:x"]])
    d0["results"] = {"t1": [0]}
    out.append(d0)
    # a loop that forks a multiply-referenced task on every pass while the instance of the previous pass may still run
    out.append(D.wf("loop_fork_overlap", {
        "t0": T(next=[dict(do=["t1", "t4"])]),
        "t1": T(next=[dict(when="succeeded", pub=[["n", "inc:n"]], do=["t2"])]),
        "t2": T(next=[dict(when="lt:n:2", do=["t1"]), dict(when="succeeded", do=["t4"])]),     # t4 forked by the same transition on every pass
        "t4": T(next=[dict(do=["t5"])]),
        "t5": T()}, vars=[["n", 0]], output=[["on", "ctx:n"]]))
    out.append(D.wf("on_complete", {
        "t1": T(next=[dict(when="completed", pub=[["x", "c:1"]], do=["t2"])]), "t2": T()},
        vars=[["x", 0]], output=[["o", "ctx:x"]], fates={"t1": A, "t2": A}))
    out.append(D.wf("continue_pub", {
        "t1": T(next=[dict(when="failed", pub=[["x", "c:5"]], do=[]), dict(when="succeeded", do=["t2"])]),
        "t2": T()}, vars=[["x", 0]], output=[["o", "ctx:x"]], fates={"t1": A, "t2": A}))
    out.append(D.wf("two_roots_join", {
        "t1": T(next=[dict(when="succeeded", do=["t3"])]), "t2": T(next=[dict(when="succeeded", do=["t3"])]),
        "t3": T(join=-1, next=[dict(do=["t4"])]), "t4": T()}, fates={"t1": A, "t2": A, "t3": A, "t4": ["s"]}))
    # task names that sort before the engine commands (transitions are processed by target name)
    out.append(D.wf("cleanup_before_fail", {
        "t1": T(next=[dict(when="failed", do=["a2", "fail", "t3"]), dict(when="succeeded", do=["t3"])]),
        "a2": T(), "t3": T()}, fates={"t1": A, "a2": ["s"], "t3": ["s"]}))
    out.append(D.wf("names_around_cmds", {
        "b1": T(next=[dict(when="succeeded", do=["a2", "g3"]), dict(when="failed", do=["a2", "noop"])]),
        "a2": T(next=[dict(do=["o4"])]), "g3": T(next=[dict(when="succeeded", do=["o4"])]),
        "o4": T(join=-1)}, fates={"b1": A, "a2": A, "g3": A, "o4": ["s"]}))
    out.append(D.wf("join1_two_roots", {
        "t1": T(next=[dict(when="succeeded", pub=[["x", "res"]], do=["t3"])]),
        "t2": T(next=[dict(when="succeeded", pub=[["y", "res"]], do=["t3"])]),
        "t3": T(join=1, next=[dict(when="succeeded", do=["t4"])]), "t4": T()},
        fates={"t1": ["s"], "t2": A, "t3": A, "t4": ["s"]}))
    out.append(D.wf("cross_edge", {
        "t1": T(next=[dict(when="succeeded", do=["t2", "t4"])]),
        "t2": T(next=[dict(do=["t3"])]),
        "t3": T(next=[dict(when="succeeded", do=["t4", "t5"])]),
        "t4": T(), "t5": T()}, fates={"t1": A, "t2": ["s"], "t3": A, "t4": ["s"], "t5": ["s"]}))
    out.append(D.wf("join_zero", {
        "t1": T(next=[dict(when="succeeded", do=["t3"])]), "t2": T(next=[dict(when="succeeded", do=["t3"])]),
        "t3": T(join=-2, next=[dict(do=["t4"])]), "t4": T()}, fates={"t1": A, "t2": A, "t3": ["s"], "t4": ["s"]}))
    out.append(D.wf("fail_branch_parallel", {
        "t1": T(next=[dict(when="succeeded", do=["t3"]), dict(when="failed", do=["t2", "fail"])]),
        "t2": T(), "t3": T(), "t4": T()}, fates={"t1": A, "t2": ["s"], "t3": ["s"], "t4": A}))
    out.append(D.wf("two_unreachable_joins", {
        "t1": T(next=[dict(when="succeeded", do=["t5"])]),
        "t2": T(next=[dict(when="failed", do=["t3"])]),
        "t3": T(next=[dict(do=["t5", "t6"])]),
        "t4": T(next=[dict(when="succeeded", do=["t6"])]),
        "t5": T(join=-1), "t6": T(join=-1)},
        fates={"t1": ["s"], "t2": ["s"], "t3": ["s"], "t4": ["s"], "t5": ["s"], "t6": ["s"]}))
    out.append(loop_def("loop2", 2))
    return out


def curated_items():
    A = ["s", "f"]
    out = []
    for n, k in [(0, -1), (1, -1), (2, -1), (3, -1), (3, 1), (3, 2), (2, 0), (4, 2)]:
        out.append(D.wf("items_%d_%d" % (n, k if k >= 0 else 9), {
            "t1": T(items=n, conc=k, next=[dict(when="succeeded", pub=[["r", "res"]], do=["t2"]),
                                           dict(when="failed", pub=[["r", "res"]], do=["noop"])]),
            "t2": T()}, vars=[["r", 0]], output=[["or", "ctx:r"]], fates={"t1": A, "t2": ["s"]}))
    out.append(D.wf("items_branch", {
        "t1": T(next=[dict(do=["t2", "t3"])]),
        "t2": T(items=2, next=[dict(when="succeeded", do=["t4"])]),
        "t3": T(next=[dict(when="succeeded", do=["t4"])]),
        "t4": T(join=-1)}, fates={"t1": ["s"], "t2": A, "t3": A, "t4": ["s"]}))
    out.append(D.wf("items_join_target", {
        "t1": T(next=[dict(when="succeeded", do=["t3"])]),
        "t2": T(next=[dict(when="succeeded", do=["t3"])]),
        "t3": T(join=-1, items=2, conc=1, next=[dict(pub=[["r", "res"]], do=["t4"])]), "t4": T()},
        vars=[["r", 0]], output=[["or", "ctx:r"]], fates={"t1": ["s"], "t2": A, "t3": A, "t4": ["s"]}))
    out.append(D.wf("items_join1_target", {
        "t1": T(next=[dict(when="succeeded", do=["t3"])]),
        "t2": T(next=[dict(when="succeeded", do=["t3"])]),
        "t3": T(join=1, items=2, conc=1), }, fates={"t1": ["s"], "t2": ["s"], "t3": A}))
    out.append(D.wf("items_parallel", {
        "t1": T(items=2, next=[dict(when="succeeded", do=["t3"])]),
        "t2": T(items=2, conc=1, next=[dict(when="succeeded", do=["t3"])]),
        "t3": T(join=-1)}, fates={"t1": A, "t2": A, "t3": ["s"]}))
    out.append(D.wf("items_par_remediated", {
        "t1": T(items=2, conc=1, next=[dict(when="succeeded", do=["t3"])]),
        "t2": T(next=[dict(when="failed", do=["noop"]), dict(when="succeeded", do=["t3"])]),
        "t3": T()}, fates={"t1": ["s"], "t2": A, "t3": ["s"]}))
    out.append(D.wf("items_par_remediated_task", {
        "t1": T(items=2, conc=1, next=[dict(when="succeeded", do=["t3"])]),
        "t2": T(next=[dict(when="failed", do=["t4"]), dict(when="succeeded", do=["t3"])]),
        "t3": T(), "t4": T()}, fates={"t1": ["s"], "t2": A, "t3": ["s"], "t4": ["s"]}))
    out.append(D.wf("items_join1_then_fail", {
        "t1": T(next=[dict(when="succeeded", do=["t3"])]),
        "t2": T(next=[dict(when="succeeded", do=["t3"])]),
        "t3": T(join=1, items=2, conc=1, next=[dict(when="succeeded", do=["t4"])]), "t4": T()},
        fates={"t1": ["s"], "t2": A, "t3": ["s"], "t4": ["s"]}))
    out.append(D.wf("items_chain", {
        "t1": T(next=[dict(when="succeeded", pub=[["x", "res"]], do=["t2"])]),
        "t2": T(items=2, conc=1, next=[dict(when="succeeded", do=["t3"])]),
        "t3": T()}, vars=[["x", 0]], fates={"t1": ["s"], "t2": ["s"], "t3": A}))
    out.append(D.wf("items_abends", {
        "t1": T(items=2, next=[dict(when="succeeded", do=["t2"])]), "t2": T()},
        fates={"t1": ["s", "t", "a"], "t2": ["s"]}))
    out.append(D.wf("items_abends_conc", {
        "t1": T(items=3, conc=2, next=[dict(when="succeeded", do=["t2"])]), "t2": T()},
        fates={"t1": ["s", "f", "t"], "t2": ["s"]}))
    out.append(D.wf("items_retry", {
        "t1": T(items=2, retry={"count": 1}, next=[dict(when="succeeded", do=["t2"])]),
        "t2": T()}, fates={"t1": A, "t2": ["s"]}))
    # concurrency given by an expression that evaluates below zero (a literal is rejected by the schema): one at a time
    out.append(D.wf("items_neg_conc", {
        "t1": T(items=3, conc=-2, concx=True, next=[dict(when="succeeded", do=["t2"])]), "t2": T()},
        fates={"t1": A, "t2": ["s"]}))
    # a second branch reaches a running with-items join: 1 target and publishes; the target's own
    # transitions read that variable when it completes (they must see what the execution started with)
    out.append(D.wf("items_join1_late_pub", {
        "t1": T(next=[dict(when="succeeded", do=["t3"])]),
        "t2": T(next=[dict(when="succeeded", pub=[["w", "c:5"]], do=["t3"])]),
        "t3": T(join=1, items=2, conc=1, next=[dict(when="failed", pub=[["y", "ctx:w"]], do=["t4"]),
                                               dict(when="succeeded", pub=[["y", "ctx:w"]], do=["t4"])]),
        "t4": T()}, vars=[["w", 0], ["y", 0]], output=[["oy", "ctx:y"]],
        fates={"t1": ["s"], "t2": ["s"], "t3": A, "t4": ["s"]}))
    return out


def curated_retry():
    A = ["s", "f"]
    out = []
    for cnt in (1, 2):
        for when in ("default", "completed", "succeeded"):
            for delay in (-1, 2):
                out.append(D.wf("retry_%d_%s_%d" % (cnt, when, max(delay, 0)), {
                    "t1": T(retry={"count": cnt, "when": when, "delay": delay}, delay=(3 if delay > 0 else -1),
                            next=[dict(when="succeeded", pub=[["x", "res"]], do=["t2"]),
                                  dict(when="failed", do=["noop"])]),
                    "t2": T()}, vars=[["x", 0]], output=[["ox", "ctx:x"]], fates={"t1": A, "t2": ["s"]}))
    out.append(D.wf("retry_branch", {
        "t1": T(next=[dict(do=["t2", "t3"])]),
        "t2": T(retry={"count": 1}, next=[dict(when="succeeded", do=["t4"])]),
        "t3": T(next=[dict(when="succeeded", do=["t4"])]),
        "t4": T(join=-1)}, fates={"t1": ["s"], "t2": A, "t3": A, "t4": ["s"]}))
    out.append(D.wf("retry_cmd", {
        "t1": T(next=[dict(when="failed", do=["retry"]), dict(when="succeeded", do=["t2"])]),
        "t2": T()}, fates={"t1": A, "t2": ["s"]}))
    # a multiply-referenced (split) task with a retry policy: one instance per route, interleaved
    out.append(D.wf("retry_split", {
        "t1": T(next=[dict(do=["t2", "t3"])]),
        "t2": T(next=[dict(do=["t4"])]), "t3": T(next=[dict(do=["t4"])]),
        "t4": T(retry={"count": 1}, next=[dict(when="succeeded", do=["noop"])])},
        fates={"t1": ["s"], "t2": ["s"], "t3": ["s"], "t4": A}))
    # a join: 1 target with a retry policy: a second inbound branch can arrive while the retry is staged
    out.append(D.wf("retry_join1", {
        "t1": T(next=[dict(when="succeeded", pub=[["x", "res"]], do=["t3"])]),
        "t2": T(next=[dict(when="succeeded", pub=[["y", "res"]], do=["t3"])]),
        "t3": T(join=1, retry={"count": 1}, next=[dict(when="succeeded", do=["noop"])])},
        vars=[["x", 0], ["y", 0]], output=[["ox", "ctx:x"], ["oy", "ctx:y"]], fates={"t1": ["s"], "t2": ["s"], "t3": A}))
    out.append(D.wf("retry_unhandled", {
        "t1": T(retry={"count": 1}), }, fates={"t1": A}))
    return out


def loop_def(name, bound):
    """single-entry, counter-bounded loop: t1 -> t2 -> t3 -(i<bound)-> t2 ; -(i>=bound)-> t4"""
    return D.wf(name, {
        "t1": T(next=[dict(when="succeeded", do=["t2"])]),
        "t2": T(next=[dict(when="succeeded", pub=[["i", "inc:i"]], do=["t3"])]),
        "t3": T(next=[dict(when="lt:i:%d" % bound, do=["t2"]), dict(when="ge:i:%d" % bound, do=["t4"])]),
        "t4": T()}, vars=[["i", 0]], output=[["o", "ctx:i"]], fates={"t2": ["s", "f"]})


CONDS = ["always", "succeeded", "succeeded", "failed", "completed"]


def random_def(rng, nmax=4, publish=False, allow_cmds=True, fates_f=0.6, joins=True, items=False, retry=False):
    n = rng.randint(2, nmax)
    names = ["t%d" % (i + 1) for i in range(n)]
    tasks = {}
    inbound = {t: set() for t in names}
    vars_ = ["x", "y"]
    for i, t in enumerate(names):
        later = names[i + 1:]
        nx = []
        ntr = rng.choice([0, 1, 1, 1, 2, 2]) if later or allow_cmds else 0
        if i == 0 and later:
            ntr = max(ntr, 1)
        for _ in range(ntr):
            pool = list(later) + (["noop", "fail"] if allow_cmds and rng.random() < 0.35 else [])
            if not pool:
                continue
            k = 1 if rng.random() < 0.6 or len(pool) == 1 else 2
            do = rng.sample(pool, k)
            if rng.random() < 0.08:
                do = []
            pub = []
            if publish and rng.random() < 0.6:
                for _ in range(rng.choice([1, 1, 2])):
                    pub.append([rng.choice(vars_), rng.choice(["res", "res", "c:%d" % rng.randint(1, 3), "ctx:x", "inc:x"])])
            nx.append(dict(when=rng.choice(CONDS), pub=pub, do=do))
            for x in do:
                if x in inbound:
                    inbound[x].add(t)
        tasks[t] = T(next=nx)
    # every non-first task needs an inbound edge or it is an extra root (allowed, sometimes)
    for i, t in enumerate(names[1:], 1):
        if not inbound[t] and rng.random() < 0.8:
            src = rng.choice(names[:i])
            tasks[src]["next"].append(D.tr(when=rng.choice(CONDS), do=[t]))
            inbound[t].add(src)
    if joins:
        for t in names:
            k = len(inbound[t])
            if k >= 2 and rng.random() < 0.6:
                tasks[t]["join"] = rng.choice([-1, -1, 1, 2] + ([k] if k > 2 else []))
            elif k == 1 and rng.random() < 0.05:
                tasks[t]["join"] = -1
    if items:
        for t in rng.sample(names, rng.choice([1, 1, 2]) if len(names) > 1 else 1):
            tasks[t]["items"] = rng.choice([0, 1, 2, 2, 3, 3])
            tasks[t]["conc"] = rng.choice([-1, -1, 1, 2, 0])
            tasks[t]["concx"] = tasks[t]["conc"] > 0 and rng.random() < 0.3
            if publish or rng.random() < 0.5:
                for n in tasks[t]["next"][:1]:
                    n["pub"].append(["r", "res"])
    if retry:
        for t in rng.sample(names, rng.choice([1, 1, 2]) if len(names) > 1 else 1):
            tasks[t]["retry"] = {"on": True, "count": rng.choice([1, 1, 2]),
                                 "when": rng.choice(["default", "default", "completed", "failed", "succeeded"]),
                                 "delay": rng.choice([-1, -1, 2])}
            if rng.random() < 0.3:
                tasks[t]["delay"] = 3
    fates = {t: (["s", "f"] if rng.random() < fates_f else ["s"]) for t in names}
    if rng.random() < 0.25:
        # rename some tasks so that they sort before / between the engine commands
        ren = {t: rng.choice(["a", "d", "g", "o", "t"]) + t[1:] for t in names}
        tasks = {ren[t]: td for t, td in tasks.items()}
        for td in tasks.values():
            for n in td["next"]:
                n["do"] = [ren.get(x, x) for x in n["do"]]
        fates = {ren[t]: f for t, f in fates.items()}
    vs = ([["x", 0], ["y", 0]] if publish else []) + ([["r", 0]] if items else [])
    d = D.wf("r", tasks, vars=vs,
             output=([["ox", "ctx:x"], ["oy", "ctx:y"]] if publish else []) + ([["or", "ctx:r"]] if items else []),
             fates=fates)
    return d


def accepted(d, lang="yaql"):
    from .real import native_specs
    try:
        spec = native_specs.WorkflowSpec(copy.deepcopy(D.concretise(d, lang)))
        return spec.inspect() == {}
    except Exception:
        return False


def random_family(seed, count, **kw):
    rng = random.Random(seed)
    out, seen, tries = [], set(), 0
    while len(out) < count and tries < count * 30:
        tries += 1
        d = random_def(rng, **kw)
        k = D.dumps({"t": d["tasks"], "v": d["vars"], "f": d["fates"]})
        if k in seen:
            continue
        seen.add(k)
        if not accepted(d):
            continue
        d["name"] = "r%d_%d" % (seed, len(out))
        out.append(d)
    return out


def with_e2(defs, fates=("s", "f", "C", "P", "p", "t")):
    """Same definitions under the E1/E2 alphabet: failing tasks may also time out, cancel or pause
    themselves (pausing/paused/resuming, canceling/canceled) or go pending."""
    out = []
    for d in defs:
        d = copy.deepcopy(d)
        d["name"] += "_e2"
        for t in d["fates"]:
            if "f" in d["fates"][t]:
                d["fates"][t] = list(fates)
        out.append(d)
    return out


def curated_ctx():
    A = ["s", "f"]
    out = []
    out.append(D.wf("s1_inherit", {
        "t1": T(next=[dict(pub=[["a", "c:1"]], do=["t2", "t3"])]),
        "t2": T(next=[dict(pub=[["a", "c:2"]], do=["t4"])]),
        "t3": T(next=[dict(do=["t4"])]),
        "t4": T(join=-1)}, vars=[["a", 0]], output=[["oa", "ctx:a"]]))
    # one inbound branch of a join has published nothing at all (its context is the initial one only),
    # the other one overrides a variable that has a default
    out.append(D.wf("join_root_nopub", {
        "t1": T(next=[dict(when="succeeded", pub=[["a", "c:1"]], do=["t3"])]),
        "t2": T(next=[dict(when="succeeded", do=["t3"])]),
        "t3": T(join=-1, next=[dict(pub=[["b", "ctx:a"]], do=["t4"])]),
        "t4": T()}, vars=[["a", 0], ["b", 0]], output=[["oa", "ctx:a"], ["ob", "ctx:b"]]))
    # a branch publishes different variables at two levels before the join; the other branch publishes a third
    out.append(D.wf("join_two_level_pubs", {
        "a1": T(next=[dict(when="succeeded", pub=[["p", "c:1"]], do=["a2"])]),
        "a2": T(next=[dict(when="succeeded", pub=[["q", "c:2"]], do=["j"])]),
        "b1": T(next=[dict(when="succeeded", do=["b2"])]),
        "b2": T(next=[dict(when="succeeded", pub=[["s", "c:3"]], do=["j"])]),
        "j": T(join=-1, next=[dict(pub=[["tp", "ctx:p"], ["tq", "ctx:q"], ["ts", "ctx:s"]], do=["z"])]),
        "z": T()}, vars=[["p", 0], ["q", 0], ["s", 0], ["tp", 0], ["tq", 0], ["ts", 0]],
        output=[["op", "ctx:tp"], ["oq", "ctx:tq"], ["os", "ctx:ts"]]))
    # two concurrent branches write the same variable and both end in a terminal record (finding S20)
    out.append(D.wf("concurrent_terminal_writers", {
        "t1": T(next=[dict(when="succeeded", pub=[["y", "ctx:x"]], do=["noop"])]),
        "o2": T(next=[dict(when="completed", pub=[["y", "inc:x"]], do=["g3"])]),
        "g3": T()}, vars=[["x", 0], ["y", 0]], output=[["ox", "ctx:x"], ["oy", "ctx:y"]]))
    out.append(D.wf("independent_join", {
        "t1": T(next=[dict(do=["t2", "t3"])]),
        "t2": T(next=[dict(pub=[["a", "res"]], do=["t4"])]),
        "t3": T(next=[dict(pub=[["a", "res"]], do=["t4"])]),
        "t4": T(join=-1, next=[dict(pub=[["b", "ctx:a"]], do=["t5"])]), "t5": T()},
        vars=[["a", 0]], output=[["ob", "ctx:b"]]))
    out.append(D.wf("independent_join_long", {
        "t1": T(next=[dict(do=["t2", "t3"])]),
        "t2": T(next=[dict(pub=[["a", "res"]], do=["t5"])]),
        "t3": T(next=[dict(pub=[["a", "res"]], do=["t4"])]),
        "t5": T(next=[dict(do=["t4"])]),
        "t4": T(join=-1, next=[dict(when="ge:a:3000", pub=[["b", "c:1"]], do=["t6"]), dict(when="lt:a:3000", pub=[["b", "c:2"]], do=["t6"])]),
        "t6": T()}, vars=[["a", 0]], output=[["ob", "ctx:b"]]))
    # the output cannot be rendered when the workflow fails, but can after a late completion
    out.append(D.wf("late_output", {
        "t1": T(next=[dict(do=["t2", "t3"])]),
        "t2": T(),
        "t3": T(next=[dict(pub=[["z", "res"]], do=["t4"])]),
        "t4": T()}, output=[["oz", "ctx:z"]], fates={"t1": ["s"], "t2": ["s", "f"], "t3": ["s"], "t4": ["s", "f"]}))
    out.append(D.wf("join_then_sibling", {
        "t1": T(next=[dict(pub=[["a", "res"]], do=["t2"])]),
        "t2": T(next=[dict(do=["t3", "t4"])]),
        "t5": T(next=[dict(do=["t3"])]),
        "t3": T(join=-1),
        "t4": T(next=[dict(pub=[["b", "ctx:v"]], do=["t6"])]), "t6": T()},
        vars=[["v", 7], ["a", 0]], output=[["ob", "ctx:b"], ["ov", "ctx:v"]]))
    # a leaf whose only transition is a failure handler: its context must reach the output whatever the order
    out.append(D.wf("leaf_unsatisfied", {
        "t1": T(next=[dict(pub=[["x", "res"]], do=["t2"])]),
        "t2": T(next=[dict(when="failed", do=["noop"])]),
        "t3": T(next=[dict(pub=[["y", "res"]], do=["t4"])]),
        "t4": T()}, output=[["ox", "ctx:x"], ["oy", "ctx:y"]]))
    # ... the same with a branch that may fail (a rerun must keep the leaf's context in the output)
    out.append(D.wf("leaf_unsatisfied_rerun", {
        "t1": T(next=[dict(pub=[["x", "res"]], do=["t2"])]),
        "t2": T(next=[dict(when="failed", do=["noop"])]),
        "t3": T(next=[dict(pub=[["y", "res"]], do=["t4"])]),
        "t4": T()}, vars=[["x", 0], ["y", 0]], output=[["ox", "ctx:x"], ["oy", "ctx:y"]], fates={"t4": A}))
    out.append(D.wf("no_leak", {
        "t1": T(next=[dict(when="succeeded", pub=[["x", "res"]], do=["t2"]), dict(when="succeeded", pub=[["y", "res"]], do=["t3"])]),
        "t2": T(next=[dict(pub=[["z", "ctx:x"]], do=["t4"])]),
        "t3": T(next=[dict(pub=[["z", "ctx:y"]], do=["t4"])]),
        "t4": T()}, output=[], fates={"t1": ["s"], "t2": A, "t3": A, "t4": ["s"]}))
    out.append(D.wf("split_ctx", {
        "t1": T(next=[dict(do=["t2", "t3"])]),
        "t2": T(next=[dict(pub=[["a", "res"]], do=["t4"])]),
        "t3": T(next=[dict(pub=[["a", "res"]], do=["t4"])]),
        "t4": T(next=[dict(pub=[["b", "inc:a"]], do=["t5"])]), "t5": T()},
        vars=[["a", 0], ["b", 0]], output=[["oa", "ctx:a"], ["ob", "ctx:b"]]))
    out.append(D.wf("rolling_pub", {
        "t1": T(next=[dict(pub=[["x", "c:1"], ["y", "inc:x"], ["x", "inc:y"]], do=["t2"])]),
        "t2": T(next=[dict(when="ge:x:3", pub=[["z", "ctx:x"]], do=["t3"]), dict(when="lt:x:3", do=["noop"])]),
        "t3": T()}, vars=[["x", 0]], output=[["ox", "ctx:x"], ["oy", "ctx:y"]]))
    out.append(loop_def("loop3", 3))
    return out


FAULT_POSITIONS = ("vars", "action", "input", "items", "conc", "delay", "retry_when", "retry_count", "retry_delay",
                   "when", "publish", "output")


def curated_delay():
    """Shapes with delayed tasks, for providers that report `delayed` before `running` (env delayed)."""
    A = ["s", "f"]
    out = []
    out.append(D.wf("delay_branch", {
        "t1": T(delay=3, next=[dict(when="succeeded", pub=[["x", "c:1"]], do=["t3"])]),
        "t2": T(),
        "t3": T(next=[dict(do=["t4"])]),
        "t4": T()}, vars=[["x", 0]], output=[["ox", "ctx:x"]], fates={"t1": A, "t2": A}))
    out.append(D.wf("delay_join", {
        "t1": T(delay=2, next=[dict(when="succeeded", do=["t3"])]),
        "t2": T(next=[dict(when="succeeded", do=["t3"])]),
        "t3": T(join=-1)}, fates={"t1": A, "t2": A}))
    out.append(D.wf("delay_second", {
        "t1": T(next=[dict(do=["t2", "t3"])]),
        "t2": T(delay=2, next=[dict(do=["t4"])]),
        "t3": T(),
        "t4": T()}, fates={"t2": A, "t3": A}))
    out.append(D.wf("delay_items", {
        "t1": T(items=2, conc=1, delay=2, next=[dict(do=["t3"])]),
        "t2": T(),
        "t3": T()}, fates={"t1": A, "t2": A}))
    return out


def rerun_prefixes(d, fail_task):
    """For a definition: the eager history in which everything succeeds except `fail_task` (its first execution
    fails), followed by one rerun request - one prefix per execution that exists at that point, whatever its
    status.  The exploration then continues from there (lazily: re-offered tasks wait while others report)."""
    from . import explore as X
    r = X.Real(d)
    hist = [["boot"]]
    X.apply_choice(r, ["boot"], False)
    failed = False
    for _ in range(60):
        chs = r.report_choices()
        if not chs:
            break
        pick = None
        for c in chs:
            want = "failed" if (c[0] == fail_task and not failed) else "succeeded"
            if c[3] == want:
                pick = c
                break
        pick = pick or chs[0]
        failed = failed or (pick[0] == fail_task and pick[3] == "failed")
        X.apply_choice(r, ["rep"] + pick, False)
        hist.append(["rep"] + pick)
    if r.c.get_workflow_status() not in ("failed", "succeeded"):
        return []
    recs = sorted({(e["id"], e["route"]) for e in r.c.workflow_state.sequence if e["id"] in d["tasks"]})
    return [[["eager", h] for h in hist[1:]] + [["rerun", [[t, rt, 0]]]] for t, rt in recs]


def multi_ref_family():
    """Definitions inspection must reject with SEVERAL entries for one variable: different expressions in
    one mapping (task input), in one publish list and in vars refer to a name nothing assigns.  The order
    of the report entries must not depend on the interpreter (C19)."""
    out = []
    t1 = T(next=[dict(when="succeeded", pub=[["y", "ctx:zz"], ["w", "inc:zz"]], do=["t2"])])
    t1["inputxx"] = ["ctx:zz", "inc:zz", "ctx:zz", "inc:zz"]
    t2 = T()
    t2["inputxx"] = ["inc:zz", "ctx:zz"]
    out.append(D.wf("multi_ref_input", {"t1": t1, "t2": t2}, vars=[["x", 0]], output=[["ox", "ctx:x"]]))
    t1 = T(next=[dict(when="succeeded", pub=[["y", "ctx:zz"], ["w", "inc:zz"]], do=["t2"])])
    out.append(D.wf("multi_ref_publish", {"t1": t1, "t2": T()}, vars=[["x", 0], ["u", "ctx:zz"], ["v", "inc:zz"]],
                    output=[["ox", "ctx:zz"], ["oy", "inc:zz"]]))
    return out


def inspect_order_family():
    """Definitions whose inspection report has several entries of one kind at one position: the order of the
    entries must not depend on the interpreter (C19).  They cannot be conducted; they are only inspected."""
    out = []
    t1 = T(next=[dict(when="succeeded", do=["zz_d", "zz_a", "zz_c", "zz_b", "zz_e"]), dict(when="failed", do=["zz_g", "zz_f", "t2"])])
    out.append(D.wf("undefined_many", {"t1": t1, "t2": T(next=[dict(do=["zz_h", "zz_i", "zz_j"])])}))
    t1 = T(next=[dict(when="succeeded", pub=[["y", "ctx:zz"], ["w", "inc:qq"]], do=["zz_b", "zz_a", "t2"])])
    t1["inputxx"] = ["ctx:zz", "inc:qq", "ctx:rr", "inc:zz"]
    out.append(D.wf("mixed_many", {"t1": t1, "t2": T(), "noop": T(), "fail": T()}, vars=[["v", "ctx:uu"], ["u", "inc:vv"]],
                    output=[["o1", "ctx:o_a"], ["o2", "inc:o_b"]]))
    return out


def fault_family(kinds=("undef", "key", "type", "func"), positions=FAULT_POSITIONS):
    """Host shapes with exactly one failing expression position (DESIGN.md 6 C11)."""
    A = ["s", "f"]
    out = []
    for pos in positions:
        for kind in kinds:
            if kind == "str" and pos not in ("items", "conc", "delay", "retry_count", "retry_delay"):
                continue        # a string is a legitimate value elsewhere
            bad = "bad:" + kind
            t1 = T(next=[dict(when="succeeded", pub=[["x", "res"]], do=["t2", "t3"]), dict(when="failed", do=["noop"])])
            t2 = T(next=[dict(do=["t4"])])
            t3 = T(next=[dict(do=["t4"])])
            t4 = T(join=-1)
            vars_ = [["x", 0]]
            output = [["ox", "ctx:x"]]
            meta = {"pos": pos, "task": "t2"}
            if pos == "vars":
                vars_ = [["x", 0], ["w", bad]]
                meta["task"] = "none"
            elif pos == "action":
                t2["actionx"] = bad
            elif pos == "input":
                t2["inputx"] = bad
            elif pos == "items":
                t2["items"] = 2
                t2["itemsx"] = bad
            elif pos == "conc":
                t2["items"] = 2
                t2["conc"] = 1
                t2["concbad"] = kind
            elif pos == "delay":
                t2["delay"] = 1
                t2["delayx"] = bad
            elif pos == "retry_when":
                t2["retry"] = {"on": True, "count": 1, "when": bad, "delay": -1}
            elif pos == "retry_count":
                t2["retry"] = {"on": True, "count": 1, "when": "default", "delay": -1, "countx": bad}
            elif pos == "retry_delay":
                t2["retry"] = {"on": True, "count": 1, "when": "default", "delay": 1, "delayx": bad}
            elif pos == "when":
                t2["next"] = [D.tr(when=bad, do=["t4"]), D.tr(when="succeeded", do=["noop"])]
            elif pos == "publish":
                t2["next"] = [D.tr(pub=[["y", bad]], do=["t4"])]
            elif pos == "output":
                output = [["ox", "ctx:x"], ["oz", bad]]
                meta["task"] = "none"
            d = D.wf("fault_%s_%s" % (pos, kind), {"t1": t1, "t2": t2, "t3": t3, "t4": t4}, vars=vars_, output=output,
                     fates={"t1": A, "t2": A, "t3": A, "t4": ["s"]})
            d["fault"] = meta
            out.append(d)
    return out


def random_graph_def(rng, nmax=5):
    """arbitrary fan-out/fan-in, back edges, several transitions between the same pair, engine
    commands incl. retry, joins - for the composer (C14) and inspection (C15)."""
    n = rng.randint(2, nmax)
    names = ["t%d" % (i + 1) for i in range(n)]
    if rng.random() < 0.3:
        names = [rng.choice("adgot") + x[1:] for x in names]
        if len(set(names)) < n:
            names = ["t%d" % (i + 1) for i in range(n)]
    conds = ["always", "succeeded", "failed", "completed", "res=1"]
    tasks = {}
    for i, t in enumerate(names):
        nx = []
        for _ in range(rng.choice([0, 1, 1, 2, 2, 3])):
            pool = [x for x in names if x != t or rng.random() < 0.1]
            if rng.random() < 0.7:
                pool = names[i + 1:] or pool           # mostly forward
            do = rng.sample(pool, min(len(pool), rng.choice([1, 1, 2])))
            if rng.random() < 0.25:
                do.append(rng.choice(["noop", "fail", "continue", "retry"]))
            rng.shuffle(do)
            nx.append(dict(when=rng.choice(conds), pub=([["x", "res"]] if rng.random() < 0.3 else []), do=do))
        tasks[t] = T(next=nx)
        if rng.random() < 0.15:
            tasks[t]["retry"] = {"on": True, "count": rng.choice([1, 2]), "when": rng.choice(["default", "failed"]),
                                 "delay": rng.choice([-1, 2])}
    inbound = {t: 0 for t in names}
    for t in names:
        for n_ in tasks[t]["next"]:
            for x in n_["do"]:
                if x in inbound:
                    inbound[x] += 1
    for t in names:
        if inbound[t] >= 2 and rng.random() < 0.4:
            tasks[t]["join"] = rng.choice([-1, -1, 1, 2, -2])
    return D.wf("g", tasks, vars=[["x", 0]], fates={t: ["s"] for t in names})


def graph_family(seed, count, nmax=5):
    rng = random.Random(seed)
    out, seen, tries = [], set(), 0
    while len(out) < count and tries < count * 40:
        tries += 1
        d = random_graph_def(rng, nmax)
        k = D.dumps(d["tasks"])
        if k in seen:
            continue
        seen.add(k)
        if not accepted(d):
            continue
        d["name"] = "g%d_%d" % (seed, len(out))
        out.append(d)
    return out


def exhaustive_two():
    """ALL definitions over two action tasks in the grammar: every task has at most two transitions,
    each (condition in always/succeeded/failed) -> one target among the later task and the engine
    commands noop/fail; t2 must be reachable or a second root; both outcomes allowed everywhere."""
    import itertools
    conds = ["always", "succeeded", "failed"]

    def edge_sets(targets):
        edges = [(c, t) for c in conds for t in targets]
        out = [()]
        out += [(e,) for e in edges]
        out += list(itertools.combinations(edges, 2))
        return out
    defs = []
    for e1 in edge_sets(["t2", "noop", "fail"]):
        for e2 in edge_sets(["noop", "fail"]):
            tasks = {"t1": T(next=[dict(when=c, do=[t]) for c, t in e1]),
                     "t2": T(next=[dict(when=c, do=[t]) for c, t in e2])}
            d = D.wf("x2_%d" % len(defs), tasks, fates={"t1": ["s", "f"], "t2": ["s", "f"]})
            defs.append(d)
    return defs
