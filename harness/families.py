"""Families of abstract definitions: curated shapes + seeded random generation from the grammar of
DESIGN.md 3.4.  Every definition returned here has passed the real `inspect()`."""

import copy
import random

from . import defs as D

T = D.task


def curated():
    out = []
    A = ["s", "f"]
    out.append(D.wf("seq", {"t1": T(next=[dict(do=["t2"])]), "t2": T(next=[dict(when="succeeded", do=["t3"])]), "t3": T()},
                    fates={"t1": A, "t2": A, "t3": A}))
    out.append(D.wf("fork", {"t1": T(next=[dict(when="succeeded", do=["t2", "t3"])]), "t2": T(), "t3": T()},
                    fates={"t1": A, "t2": A, "t3": A}))
    out.append(D.wf("diamond", {
        "t1": T(next=[dict(when="succeeded", pub=[["x", "res"]], do=["t2", "t3"])]),
        "t2": T(next=[dict(when="succeeded", pub=[["y", "res"]], do=["t4"])]),
        "t3": T(next=[dict(when="succeeded", do=["t4"])]),
        "t4": T(join=-1)}, vars=[["x", 0]], output=[["o", "ctx:x"]],
        fates={"t1": A, "t2": A, "t3": A, "t4": A}))
    out.append(D.wf("decision", {
        "t1": T(next=[dict(when="succeeded", do=["t2"]), dict(when="failed", do=["t3"])]),
        "t2": T(), "t3": T()}, fates={"t1": A, "t2": A, "t3": A}))
    out.append(D.wf("handler_noop", {
        "t1": T(next=[dict(when="failed", do=["noop"]), dict(when="succeeded", do=["t2"])]),
        "t2": T()}, fates={"t1": A, "t2": A}))
    out.append(D.wf("handler_fail", {
        "t1": T(next=[dict(when="succeeded", do=["t2", "fail"])]),
        "t2": T(next=[dict(do=["t3"])]), "t3": T()}, fates={"t1": A, "t2": A, "t3": A}))
    out.append(D.wf("log_fail", {
        "t1": T(next=[dict(when="failed", do=["t2", "fail"]), dict(when="succeeded", do=["t3"])]),
        "t2": T(), "t3": T()}, fates={"t1": A, "t2": A, "t3": A}))
    out.append(D.wf("join_count", {
        "t1": T(next=[dict(do=["t5"])]), "t2": T(next=[dict(when="succeeded", do=["t5"])]),
        "t3": T(next=[dict(when="succeeded", do=["t5"])]), "t5": T(join=2)},
        fates={"t1": A, "t2": A, "t3": A, "t5": ["s"]}))
    out.append(D.wf("join_partial", {
        "t1": T(next=[dict(when="succeeded", do=["t3"]), dict(when="failed", do=["noop"])]),
        "t2": T(next=[dict(when="succeeded", do=["t3"]), dict(when="failed", do=["noop"])]),
        "t3": T(join=-1)}, fates={"t1": A, "t2": A, "t3": ["s"]}))
    out.append(D.wf("split", {
        "t1": T(next=[dict(when="succeeded", do=["t2", "t3"])]),
        "t2": T(next=[dict(pub=[["a", "res"]], do=["t4"])]),
        "t3": T(next=[dict(pub=[["a", "res"]], do=["t4"])]),
        "t4": T(next=[dict(when="succeeded", do=["t5"])]), "t5": T()},
        output=[["o", "ctx:a"]], fates={"t1": ["s"], "t2": A, "t3": A, "t4": A, "t5": ["s"]}))
    out.append(D.wf("split_join", {
        "t1": T(next=[dict(do=["t2", "t3"])]),
        "t2": T(next=[dict(do=["t4"])]), "t3": T(next=[dict(do=["t4"])]),
        "t4": T(next=[dict(do=["t5", "t6"])]),
        "t5": T(next=[dict(do=["t7"])]), "t6": T(next=[dict(do=["t7"])]), "t7": T(join=-1)},
        fates={"t5": A}))
    out.append(D.wf("on_complete", {
        "t1": T(next=[dict(when="completed", pub=[["x", "c:1"]], do=["t2"])]), "t2": T()},
        vars=[["x", 0]], output=[["o", "ctx:x"]], fates={"t1": A, "t2": A}))
    out.append(D.wf("continue_pub", {
        "t1": T(next=[dict(when="failed", pub=[["x", "c:5"]], do=[]), dict(when="succeeded", do=["t2"])]),
        "t2": T()}, vars=[["x", 0]], output=[["o", "ctx:x"]], fates={"t1": A, "t2": A}))
    out.append(D.wf("two_roots_join", {
        "t1": T(next=[dict(when="succeeded", do=["t3"])]), "t2": T(next=[dict(when="succeeded", do=["t3"])]),
        "t3": T(join=-1, next=[dict(do=["t4"])]), "t4": T()}, fates={"t1": A, "t2": A, "t3": A, "t4": ["s"]}))
    out.append(D.wf("fail_branch_parallel", {
        "t1": T(next=[dict(when="succeeded", do=["t3"]), dict(when="failed", do=["t2", "fail"])]),
        "t2": T(), "t3": T(), "t4": T()}, fates={"t1": A, "t2": ["s"], "t3": ["s"], "t4": A}))
    out.append(loop_def("loop2", 2))
    return out


def loop_def(name, bound):
    """single-entry, counter-bounded loop: t1 -> t2 -> t3 -(i<bound)-> t2 ; -(i>=bound)-> t4"""
    return D.wf(name, {
        "t1": T(next=[dict(when="succeeded", do=["t2"])]),
        "t2": T(next=[dict(when="succeeded", pub=[["i", "inc:i"]], do=["t3"])]),
        "t3": T(next=[dict(when="lt:i:%d" % bound, do=["t2"]), dict(when="ge:i:%d" % bound, do=["t4"])]),
        "t4": T()}, vars=[["i", 0]], output=[["o", "ctx:i"]], fates={"t2": ["s", "f"]})


CONDS = ["always", "succeeded", "succeeded", "failed", "completed"]


def random_def(rng, nmax=4, publish=False, allow_cmds=True, fates_f=0.6, joins=True):
    n = rng.randint(2, nmax)
    names = ["t%d" % (i + 1) for i in range(n)]
    tasks = {}
    inbound = {t: set() for t in names}
    vars_ = ["x", "y"]
    for i, t in enumerate(names):
        later = names[i + 1:]
        nx = []
        ntr = rng.choice([0, 1, 1, 1, 2, 2]) if later or allow_cmds else 0
        if i == 0 and later:
            ntr = max(ntr, 1)
        for _ in range(ntr):
            pool = list(later) + (["noop", "fail"] if allow_cmds and rng.random() < 0.35 else [])
            if not pool:
                continue
            k = 1 if rng.random() < 0.6 or len(pool) == 1 else 2
            do = rng.sample(pool, k)
            if rng.random() < 0.08:
                do = []
            pub = []
            if publish and rng.random() < 0.6:
                for _ in range(rng.choice([1, 1, 2])):
                    pub.append([rng.choice(vars_), rng.choice(["res", "res", "c:%d" % rng.randint(1, 3), "ctx:x", "inc:x"])])
            nx.append(dict(when=rng.choice(CONDS), pub=pub, do=do))
            for x in do:
                if x in inbound:
                    inbound[x].add(t)
        tasks[t] = T(next=nx)
    # every non-first task needs an inbound edge or it is an extra root (allowed, sometimes)
    for i, t in enumerate(names[1:], 1):
        if not inbound[t] and rng.random() < 0.8:
            src = rng.choice(names[:i])
            tasks[src]["next"].append(D.tr(when=rng.choice(CONDS), do=[t]))
            inbound[t].add(src)
    if joins:
        for t in names:
            k = len(inbound[t])
            if k >= 2 and rng.random() < 0.6:
                tasks[t]["join"] = rng.choice([-1, -1, 1, 2] + ([k] if k > 2 else []))
            elif k == 1 and rng.random() < 0.05:
                tasks[t]["join"] = -1
    fates = {t: (["s", "f"] if rng.random() < fates_f else ["s"]) for t in names}
    d = D.wf("r", tasks, vars=([["x", 0], ["y", 0]] if publish else []),
             output=([["ox", "ctx:x"], ["oy", "ctx:y"]] if publish else []), fates=fates)
    return d


def accepted(d, lang="yaql"):
    from .real import native_specs
    try:
        spec = native_specs.WorkflowSpec(copy.deepcopy(D.concretise(d, lang)))
        return spec.inspect() == {}
    except Exception:
        return False


def random_family(seed, count, **kw):
    rng = random.Random(seed)
    out, seen, tries = [], set(), 0
    while len(out) < count and tries < count * 30:
        tries += 1
        d = random_def(rng, **kw)
        k = D.dumps({"t": d["tasks"], "v": d["vars"], "f": d["fates"]})
        if k in seen:
            continue
        seen.add(k)
        if not accepted(d):
            continue
        d["name"] = "r%d_%d" % (seed, len(out))
        out.append(d)
    return out
