"""Model checking Spec B (spec/MC.tla) and replaying the behaviours TLC generated into the real
conductor (spec -> code direction of the binding)."""

import json
import multiprocessing as mp
from .par import pmap
import os
import re

from . import explore as X
from . import tlc

SPEC = tlc.SPEC_DIR


def run_mc(defs, workdir, own, max_pause=0, max_cancel=0, max_steps=14, known=(), emit=True,
           workers=16, timeout=1200, simulate=None, seed=None, tag="mc", bound_check=False, max_rerun=0,
           intended=False):
    """-> dict(states, distinct, wall, rc, leaves=[{def, sched, digest}], violated, out)"""
    dpath = os.path.join(workdir, tag + "_defs.json")
    with open(dpath, "w") as f:
        json.dump([X.tla_def(d) for d in defs], f)
    cfg = os.path.join(workdir, "MC_%s_%d.cfg" % (tag, os.getpid()))      # (absolute path: nothing is written into spec/)
    q = lambda xs: "{" + ", ".join('"%s"' % x for x in xs) + "}"
    with open(cfg, "w") as f:
        f.write("SPECIFICATION Spec\nCONSTANTS\n  MaxPause = %d\n  MaxCancel = %d\n  MaxSteps = %d\n  MaxRerun = %d\n"
                "  Own = %s\n  KnownSigs = %s\n  Deviations <- %s\nINVARIANT NoViolation\n%sVIEW View\nCHECK_DEADLOCK FALSE\n"
                % (max_pause, max_cancel, max_steps, max_rerun, q(own), q(known), "Intended" if intended else "AsCode",
                   ("INVARIANT EmitLeaves\n" if emit else "") + ("INVARIANT BoundNotHit\n" if bound_check else "")))
    try:
        res = tlc.run("MC", cfg=cfg, env={"DEFS_FILE": dpath,
                                                              # TLC's disk queue cannot write MC's lazily evaluated function values
                                                              # (FcnLambdaValue under a VIEW): keep the queue in memory
                                                              "JAVA_TOOL_OPTIONS": "-Dtlc2.tool.queue.IStateQueue=MemStateQueue"},
                      workers=workers,
                      timeout=timeout, simulate=simulate, seed=seed, workdir=workdir)
    finally:
        os.unlink(cfg)
    leaves = []
    for m in re.findall(r'<<"L", "(.*)">>', res["out"]):
        try:
            leaves.append(json.loads(m.encode().decode("unicode_escape")))
        except Exception:
            pass
    res["leaves"] = leaves
    res["violated"] = "Invariant NoViolation is violated" in res["out"]
    res["bound_hit"] = "Invariant BoundNotHit is violated" in res["out"]
    return res


def _digest(r):
    c = r.c
    ws = c.workflow_state
    from .real import enc_ctx
    out = c.get_workflow_output()
    return {"wf": ws.status,
            "ids": [[e["id"], e["route"], e.get("status", "null")] for e in ws.sequence],
            "nctx": len(ws.contexts),
            "nerr": len(r.project()["errs"]),
            "out": enc_ctx(out) if out else [],
            "routes": [list(x) for x in ws.routes],
            "staged": [[s["id"], s["route"], bool(s["ready"])] for s in ws.staged]}


def _norm(x):
    if isinstance(x, dict) and not x:
        return []
    if isinstance(x, dict):
        return {k: _norm(v) for k, v in x.items()}
    if isinstance(x, list):
        return [_norm(v) for v in x]
    return x


def _replay_job(job):
    """All leaf schedules of one definition -> one trace tree (prefix sharing) + digest mismatches."""
    d, leaves, lang = job
    try:
        tree = X.Tree(d)
        root = X.Real(d, lang=lang, tok="task")
        steps = X.apply_choice(root, ["boot"])
        n0 = tree.add_steps(0, steps, ["boot"])
        trie = {"real": root, "node": n0, "kids": {}}
        mismatches = []
        fins = {}
        for lf in leaves:
            cur = trie
            for ch in lf["sched"]:
                key = json.dumps(ch)
                if key not in cur["kids"]:
                    c = cur["real"].clone()
                    c.rendered = cur["real"].__dict__.get("rendered", False)
                    st = X.apply_choice(c, list(ch))
                    nn = tree.add_steps(cur["node"], st, list(ch))
                    cur["kids"][key] = {"real": c, "node": nn, "kids": {}}
                cur = cur["kids"][key]
            fins[cur["node"]] = cur["real"].fin()
            got = _norm(_digest(cur["real"]))
            exp = _norm(lf["digest"])
            if lf["digest"] is not None and got != exp:
                mismatches.append({"def": d["name"], "sched": lf["sched"], "expected": exp, "got": got})
        return {"ok": True, "tree": tree.to_json(0), "sched": [None] + [n.get("ch") for n in tree.nodes[1:]],
                "truncated": False, "leaves": len(leaves), "fins": fins, "d": d, "env": {"mc_replay": True}, "lang": lang,
                "tok": "task", "mismatches": mismatches}
    except Exception as e:
        import traceback
        return {"ok": False, "err": "%s: %s\n%s" % (type(e).__name__, e, traceback.format_exc()), "d": d}


def replay_leaves(defs, leaves, lang="yaql", procs=16):
    by = {}
    for lf in leaves:
        if lf.get("def") is None and lf.get("def_index"):
            lf["def"] = defs[lf["def_index"] - 1]["name"]
        by.setdefault(lf["def"], []).append(lf)
    jobs = [(d, by[d["name"]], lang) for d in defs if d["name"] in by]
    if not jobs:
        return []
    return pmap(_replay_job, jobs, procs)
