"""Demonstrating the binding (DESIGN.md 4.4): the validators reject what they should.

  A. explorer traces, one field corrupted      -> spec/Trace.tla must print the expected clause
  B. repository-test traces, one field corrupted -> spec/TestTrace.tla must print the expected clause
  C. the specification mutated (a Lifecycle cell, the barrier test of Spec B) -> spec/Conform.tla must
     report a divergence on traces of the unchanged tree

`./check selftest` prints one line per case and exits 0 only if every corruption was rejected with the
expected clause (and the uncorrupted inputs were accepted).  Code mutation is the job of seeded/ and
seedtest.sh.
"""

import copy
import json
import os
import shutil

from . import families as F
from . import pipeline as P
from . import tlc
from . import testtraces as TT


def _validate(module, trees, tmp, own, spec_dir=None):
    for i, t in enumerate(trees, 1):
        t["tid"] = i
        t["own"] = own
        t["known"] = []
    path = os.path.join(tmp, "selftest_%s.json" % module)
    with open(path, "w") as f:
        json.dump(trees, f, separators=(",", ":"))
    res = tlc.run(module, env={"TRACE_FILE": path}, workers=4, timeout=900, workdir=tmp, spec_dir=spec_dir)
    out = {}
    for v in tlc.verdicts(res["out"], "V"):
        out.setdefault(v[1], set()).add((v[2], v[3]))
    return out, res


def _chain(tree, upto):
    """the path root..upto of a tree as a chain-shaped tree (so that a corruption has one place)"""
    nodes = tree["nodes"]
    path, n = [], upto
    while n:
        path.append(n)
        n = nodes[n - 1]["p"]
    path.reverse()
    new = []
    for i, k in enumerate(path, 1):
        nd = copy.deepcopy(nodes[k - 1])
        nd["p"] = i - 1
        nd["kids"] = [i + 1] if i < len(path) else []
        new.append(nd)
    t = {k: v for k, v in tree.items() if k not in ("nodes", "roots")}
    t["roots"] = [1]
    t["nodes"] = new
    return t


def explorer_cases(results):
    """-> [(name, expected clause, chain tree)] built from explored trees of the unchanged code"""
    cases = []

    def first(pred):
        for r in results:
            nodes = r["tree"]["nodes"]
            for i, n in enumerate(nodes, 1):
                if pred(r, nodes, i, n):
                    return r, i
        return None, None

    # a decided record changes its status
    r, i = first(lambda r, ns, i, n: n["p"] and any(e["st"] == "succeeded" for e in ns[n["p"] - 1]["obs"]["seq"]))
    if r:
        t = _chain(r["tree"], i)
        prev = t["nodes"][-2]["obs"]["seq"]
        k = [j for j, e in enumerate(prev) if e["st"] == "succeeded"][0]
        t["nodes"][-1]["obs"]["seq"][k]["st"] = "failed"
        cases.append(("decided record flips succeeded -> failed", "C18_decided_fixed", t))
    # the workflow reports succeeded while an action is in flight
    r, i = first(lambda r, ns, i, n: n["obs"]["infl"] and n["obs"]["wf"] == "running" and n["call"]["op"] == "report")
    if r:
        t = _chain(r["tree"], i)
        t["nodes"][-1]["obs"]["wf"] = "succeeded"
        cases.append(("status succeeded with an action in flight", "C02_succeeded", t))
    # an offer is lost from the answer of a query (the second answer still has it)
    r, i = first(lambda r, ns, i, n: n["call"]["op"] == "query" and len(n["obs"]["offers"]) >= 1 and n["ret"] == "ok"
                 and n["obs"]["wf"] == "running")
    if r:
        t = _chain(r["tree"], i)
        t["nodes"][-1]["obs"]["offers"] = t["nodes"][-1]["obs"]["offers"][1:]
        cases.append(("one offer removed from a query's answer", "C19_idem", t))
        t2 = _chain(r["tree"], i)
        t2["nodes"][-1]["obs"]["offers"] = t2["nodes"][-1]["obs"]["offers"][1:]
        t2["nodes"][-1]["offers2"] = t2["nodes"][-1]["offers2"][1:]
        cases.append(("one justified offer missing (both answers)", "C01_offer_complete", t2))
    # a task is offered after the workflow ended
    r, i = first(lambda r, ns, i, n: n["call"]["op"] == "query" and n["obs"]["wf"] == "succeeded" and n["p"]
                 and ns[n["p"] - 1]["obs"]["wf"] == "succeeded")
    if r:
        t = _chain(r["tree"], i)
        some = sorted(r["d"]["tasks"])[0]
        off = {"id": some, "route": 0, "items": [], "nitems": -1, "nact": 1, "delay": -1, "ctx": {}}
        t["nodes"][-1]["obs"]["offers"] = [off]
        t["nodes"][-1]["offers2"] = [off]
        cases.append(("a task offered after succeeded", "C04_no_offer", t))
    # two recorded context deltas swapped
    r, i = first(lambda r, ns, i, n: n["p"] and len(ns[n["p"] - 1]["obs"]["ctxs"]) >= 3
                 and ns[n["p"] - 1]["obs"]["ctxs"][1] != ns[n["p"] - 1]["obs"]["ctxs"][2])
    if r:
        t = _chain(r["tree"], i)
        c = t["nodes"][-1]["obs"]["ctxs"]
        c[1], c[2] = c[2], c[1]
        cases.append(("two recorded context deltas swapped", "C18_ctxs_prefix", t))
    # an exception escapes a report
    r, i = first(lambda r, ns, i, n: n["call"]["op"] == "report" and n["ret"] == "ok")
    if r:
        t = _chain(r["tree"], i)
        t["nodes"][-1]["ret"] = "KeyError"
        cases.append(("a report raises KeyError", "C15_internal_error", t))
    return cases


def testtrace_cases(results):
    cases = []

    def first(pred):
        for r in results:
            nodes = r["tree"]["nodes"]
            for i, n in enumerate(nodes, 1):
                if pred(nodes, i, n):
                    return r, i
        return None, None

    def cut(r, i):
        t = copy.deepcopy(r["tree"])
        t["nodes"] = t["nodes"][:i]
        t["nodes"][-1]["kids"] = []
        return t

    r, i = first(lambda ns, i, n: n["obs"]["infl"] and n["obs"]["wf"] == "running" and n["call"]["op"] == "report")
    if r:
        t = cut(r, i)
        t["nodes"][-1]["obs"]["wf"] = "succeeded"
        cases.append(("status succeeded with a running record", "C02_t_succeeded", t))
    r, i = first(lambda ns, i, n: n["call"]["op"] == "query" and n["ret"] == "ok" and len(n["obs"]["offers"]) >= 1)
    if r:
        t = cut(r, i)
        t["nodes"][-1]["offers2"] = []
        cases.append(("second answer of a query differs", "C19_t_idem", t))
    r, i = first(lambda ns, i, n: n["call"]["op"] == "report" and n["ret"] == "ok")
    if r:
        t = cut(r, i)
        t["nodes"][-1]["ret"] = "KeyError"
        cases.append(("a report raises KeyError", "C15_t_internal", t))
    r, i = first(lambda ns, i, n: i > 1 and any(e["st"] == "succeeded" for e in ns[i - 2]["obs"]["seq"])
                 and n["call"]["op"] != "tamper")
    if r:
        t = cut(r, i)
        prev = t["nodes"][-2]["obs"]["seq"]
        k = [j for j, e in enumerate(prev) if e["st"] == "succeeded"][0]
        t["nodes"][-1]["obs"]["seq"][k]["st"] = "failed"
        cases.append(("decided record flips succeeded -> failed", "C18_t_decided_fixed", t))
    r, i = first(lambda ns, i, n: i > 1 and n["call"]["op"] == "query" and n["obs"]["wf"] == "succeeded"
                 and ns[i - 2]["obs"]["wf"] == "succeeded")
    if r:
        t = cut(r, i)
        some = sorted(r["d"]["tasks"])[0]
        off = {"id": some, "route": 0, "items": [], "nitems": -1, "nact": 1, "delay": -1, "ctx": {}}
        t["nodes"][-1]["obs"]["offers"] = [off]
        t["nodes"][-1]["offers2"] = [off]
        cases.append(("a task offered after succeeded", "C04_t_no_offer", t))
    r, i = first(lambda ns, i, n: i > 1 and len(n["obs"]["seq"]) >= 2 and n["call"]["op"] == "report")
    if r:
        t = cut(r, i)
        t["nodes"][-1]["obs"]["seq"][0]["id"] = "zz_other"
        cases.append(("first execution record renamed", "C18_t_seq_prefix", t))
    return cases


SPEC_MUTATIONS = [
    ("Lifecycle.tla", 'task_succeeded_workflow_active_completed |-> "running"',
     'task_succeeded_workflow_active_completed |-> "succeeded"', "a cell of the workflow status table"),
    ("Conductor.tla", "IN IF nTrue >= need THEN", "IN IF nTrue > need THEN", "barrier test >= turned into >"),
]


def run():
    r = P.Run("selftest", "quick", [])
    ok, lines = True, []
    try:
        defs = F.curated() + F.curated_ctx()
        res = P.explore_all([(d, {"pause": 1, "max_nodes": 300}, "yaql", "visit", 0) for d in defs])
        res = [x for x in res if x["ok"]]
        props = sorted({"C%02d" % k for k in range(1, 21)})
        # A
        cases = explorer_cases(res)
        got, tr = _validate("Trace", [c[2] for c in cases], r.tmp, props)
        for k, (name, clause, t) in enumerate(cases, 1):
            last = len(t["nodes"])
            hit = (last, clause) in got.get(k, set())
            ok = ok and hit
            lines.append("A %-48s expected %-22s %s" % (name, clause, "rejected" if hit else "NOT REJECTED %s" % sorted(got.get(k, []))))
        if len(cases) < 7:
            ok = False
            lines.append("A only %d corruption sites found" % len(cases))
        # B
        traces, info = TT.record(r.tmp, ("orquesta/tests/unit/conducting",))
        tres, stats = TT.to_results(traces)
        tcases = testtrace_cases(tres)
        got, _ = _validate("TestTrace", [c[2] for c in tcases], r.tmp, props)
        for k, (name, clause, t) in enumerate(tcases, 1):
            last = len(t["nodes"])
            hit = (last, clause) in got.get(k, set())
            ok = ok and hit
            lines.append("B %-48s expected %-22s %s" % (name, clause, "rejected" if hit else "NOT REJECTED %s" % sorted(got.get(k, []))))
        if len(tcases) < 6:
            ok = False
            lines.append("B only %d corruption sites found" % len(tcases))
        # uncorrupted counterparts of B accepted
        un = []
        for name, clause, t in tcases:
            rr = [x for x in tres if x["tree"].get("def", {}).get("name") == t["def"]["name"]]
            if rr:
                u = copy.deepcopy(rr[0]["tree"])
                u["nodes"] = u["nodes"][:len(t["nodes"])]
                u["nodes"][-1]["kids"] = []
                un.append(u)
        got, _ = _validate("TestTrace", un, r.tmp, props)
        accepted = not any(got.values())
        ok = ok and accepted
        lines.append("B uncorrupted counterparts (%d) %s" % (len(un), "accepted" if accepted else "REJECTED %s" % got))
        # C
        batch = [x["tree"] for x in res[:12]]
        for fname, old, new, what in SPEC_MUTATIONS:
            sd = os.path.join(r.tmp, "spec_mut")
            shutil.rmtree(sd, ignore_errors=True)
            shutil.copytree(tlc.SPEC_DIR, sd, ignore=shutil.ignore_patterns("states", "*.out"))
            with open(os.path.join(sd, fname)) as f:
                txt = f.read()
            if old not in txt:
                ok = False
                lines.append("C %s: mutation site not found in %s" % (what, fname))
                continue
            with open(os.path.join(sd, fname), "w") as f:
                f.write(txt.replace(old, new, 1))
            for i, t in enumerate(batch, 1):
                t["tid"], t["own"], t["known"] = i, [], []
            path = os.path.join(r.tmp, "conf.json")
            with open(path, "w") as f:
                json.dump(batch, f, separators=(",", ":"))
            cres = tlc.run("Conform", env={"TRACE_FILE": path}, workers=8, timeout=900, workdir=r.tmp, spec_dir=sd)
            nd = len(tlc.verdicts(cres["out"], "D"))
            hit = nd > 0
            ok = ok and hit
            lines.append("C %-48s conformance divergences=%d %s" % (what, nd, "reported" if hit else "NOT REPORTED"))
        # and the unmutated spec conforms on the same batch
        cres = tlc.run("Conform", env={"TRACE_FILE": path}, workers=8, timeout=900, workdir=r.tmp)
        nd = len(tlc.verdicts(cres["out"], "D"))
        ok = ok and nd == 0 and cres["rc"] == 0
        lines.append("C unmutated specification on the same traces: divergences=%d" % nd)
    finally:
        r.close()
    for ln in lines:
        print(ln)
    print("selftest: %s" % ("all corruptions rejected" if ok else "FAILED"))
    return 0 if ok else 2
