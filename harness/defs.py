"""Abstract workflow definitions (the `def` of Spec B / Props) and their concretisation.

An abstract definition is plain JSON-able data with *uniform* shapes so that TLC can read it:

  {"name": str,
   "vars":   [[var, int], ...],
   "output": [[name, VAL], ...],
   "tasks":  {task: {"join": 0 | -1 (all) | n,
                     "items": -1 (not with-items) | n >= 0 (list 1..n),
                     "conc":  -1 (absent) | k (may be 0),  "concx": bool (concurrency as expression),
                     "delay": -1 | k,
                     "retry": {"on": bool, "count": int, "when": COND|"default", "delay": int},
                     "next": [{"when": COND, "pub": [[var, VAL], ...], "do": [name, ...]}, ...]}},
   "fates":  {task: ["s", "f", ...]}}     # outcomes the provider may report (explorer only)

  COND ::= always | succeeded | failed | completed | res=K | lt:V:K | ge:V:K | bad:KIND
  VAL  ::= c:K | res | ctx:V | inc:V | item | bad:KIND
  KIND ::= undef | key | type | func

`concretise` renders it as the dict a WorkflowSpec is built from (YAQL or Jinja).
"""

import itertools
import json
import random

CMDS = ("continue", "fail", "noop", "retry")
RETRY_CMD = "retry"
BAD_KINDS = ("undef", "key", "type", "func", "str")


def task(join=0, items=-1, conc=-1, concx=False, delay=-1, retry=None, next=None):
    r = {"on": False, "count": 0, "when": "default", "delay": -1}
    if retry:
        r = {"on": True, "count": retry.get("count", 1), "when": retry.get("when", "default"),
             "delay": retry.get("delay", -1)}
    return {"join": join, "items": items, "conc": conc, "concx": concx, "delay": delay,
            "retry": r, "next": [tr(**n) if not _is_tr(n) else n for n in (next or [])]}


def _is_tr(n):
    return set(n.keys()) == {"when", "pub", "do"}


def tr(when="always", pub=None, do=None):
    return {"when": when, "pub": [list(p) for p in (pub or [])], "do": list(do or [])}


def wf(name, tasks, vars=None, output=None, fates=None):
    d = {"name": name, "vars": [list(v) for v in (vars or [])],
         "output": [list(o) for o in (output or [])], "tasks": tasks}
    d["fates"] = {t: list((fates or {}).get(t, ["s"])) for t in tasks}
    return d


# ---------------------------------------------------------------------------------------------
# concretisation

def _wrap(lang, yaql, jinja=None):
    if lang == "yaql":
        return "<% " + yaql + " %>"
    return "{{ " + (jinja if jinja is not None else yaql) + " }}"


def _ctxref(lang, v, form=0):
    if lang == "yaql":
        return ["ctx(%s)" % v, "ctx().%s" % v, "ctx('%s')" % v, 'ctx("%s")' % v][form % 4]
    return ["ctx('%s')" % v, "ctx().%s" % v, 'ctx("%s")' % v, "ctx('%s')" % v][form % 4]


def _bad(lang, kind):
    if kind == "undef":
        return _wrap(lang, "ctx(nope__)", "ctx('nope__')")
    if kind == "key":
        return _wrap(lang, "ctx().nope__.deeper", "ctx().nope__.deeper")
    if kind == "type":
        return _wrap(lang, "1 + {}", "1 + {}")
    if kind == "func":
        return _wrap(lang, "nosuchfn__(1)", "nosuchfn__(1)")
    if kind == "str":           # evaluates fine, to a string - an error where an integer (or a list) is required
        return _wrap(lang, "'two'", "'two'")
    raise ValueError(kind)


def cond_expr(lang, c, form=0):
    if c == "always":
        return None
    if c in ("succeeded", "failed", "completed"):
        return _wrap(lang, c + "()")
    if c.startswith("res="):
        k = c[4:]
        return _wrap(lang, "result() = " + k, "result() == " + k)
    if c.startswith("lt:") or c.startswith("ge:"):
        op, v, k = c.split(":")
        sym = "<" if op == "lt" else ">="
        return _wrap(lang, "%s %s %s" % (_ctxref(lang, v, form), sym, k))
    if c.startswith("bad:"):
        return _bad(lang, c[4:])
    raise ValueError(c)


def val_expr(lang, e, form=0):
    if e.startswith("c:"):
        return int(e[2:])
    if e == "res":
        return _wrap(lang, "result()")
    if e.startswith("ctx:"):
        return _wrap(lang, _ctxref(lang, e[4:], form))
    if e.startswith("inc:"):
        return _wrap(lang, _ctxref(lang, e[4:], form) + " + 1")
    if e == "item":
        return _wrap(lang, "item()")
    if e.startswith("bad:"):
        return _bad(lang, e[4:])
    raise ValueError(e)


def concretise(d, lang="yaql", form=0):
    """abstract definition -> dict accepted by orquesta.specs.native.WorkflowSpec."""
    spec = {"version": 1.0}
    if d.get("input"):
        spec["input"] = [{n: v} for n, v in d["input"]]
    if d["vars"]:
        spec["vars"] = [{v: (val_expr(lang, k, form) if isinstance(k, str) else k)} for v, k in d["vars"]]
    tasks = {}
    for t, td in d["tasks"].items():
        ts = {}
        if td["items"] >= 0:
            lst = "[" + ", ".join(str(i) for i in range(1, td["items"] + 1)) + "]"
            w = {"items": _wrap(lang, lst)}
            if td.get("itemsx"):
                w["items"] = val_expr(lang, td["itemsx"], form)
            if td["conc"] != -1:
                w["concurrency"] = _wrap(lang, str(td["conc"])) if td.get("concx") else td["conc"]
            if td.get("concbad"):
                w["concurrency"] = _bad(lang, td["concbad"])
            ts["with"] = w
            ts["action"] = "core.echo"
            ts["input"] = {"message": _wrap(lang, "item()")}
        else:
            ts["action"] = "core.noop"
        if td.get("actionx"):
            ts["action"] = val_expr(lang, td["actionx"], form)
        if td.get("inputx"):
            ts["input"] = {"p": val_expr(lang, td["inputx"], form)}
        if td.get("inputxx"):       # several parameters, each its own expression (same variable, different text)
            ts["input"] = {"p%d" % i: val_expr(lang, e, form + i) for i, e in enumerate(td["inputxx"])}
        if td["join"] != 0:
            ts["join"] = "all" if td["join"] == -1 else (0 if td["join"] == -2 else td["join"])
        if td["delay"] != -1:
            ts["delay"] = td["delay"]
        if td.get("delayx"):
            ts["delay"] = val_expr(lang, td["delayx"], form)
        if td["retry"]["on"]:
            r = {"count": td["retry"]["count"]}
            if td["retry"].get("countx"):
                r["count"] = val_expr(lang, td["retry"]["countx"], form)
            if td["retry"]["when"] != "default":
                r["when"] = cond_expr(lang, td["retry"]["when"], form)
            if td["retry"]["delay"] != -1:
                r["delay"] = td["retry"]["delay"]
            if td["retry"].get("delayx"):
                r["delay"] = val_expr(lang, td["retry"]["delayx"], form)
            ts["retry"] = r
        nxt = []
        for n in td["next"]:
            ns = {}
            c = cond_expr(lang, n["when"], form)
            if c is not None:
                ns["when"] = c
            if n["pub"]:
                ns["publish"] = [{v: val_expr(lang, e, form)} for v, e in n["pub"]]
            if n["do"]:
                ns["do"] = list(n["do"])
            nxt.append(ns)
        if nxt:
            ts["next"] = nxt
        tasks[t] = ts
    spec["tasks"] = tasks
    if d["output"]:
        spec["output"] = [{n: val_expr(lang, e, form)} for n, e in d["output"]]
    return spec


# ---------------------------------------------------------------------------------------------
# derived structure shared by generators (the TLA+ side derives the same in Definition.tla)

def targets(d, t):
    out = []
    for i, n in enumerate(d["tasks"][t]["next"]):
        for x in (n["do"] or ["continue"]):
            out.append((x, i))
    return out


def reachable(d):
    preds = {t: 0 for t in d["tasks"]}
    for t in d["tasks"]:
        for x, _ in targets(d, t):
            if x in preds:
                preds[x] += 1
    roots = sorted(t for t, n in preds.items() if n == 0)
    seen, todo = set(), list(roots)
    while todo:
        t = todo.pop()
        if t in seen or t not in d["tasks"]:
            continue
        seen.add(t)
        todo.extend(x for x, _ in targets(d, t))
    return roots, seen


def in_cycle(d, t):
    seen, todo = set(), [x for x, _ in targets(d, t)]
    while todo:
        x = todo.pop()
        if x == t:
            return True
        if x in seen or x not in d["tasks"]:
            continue
        seen.add(x)
        todo.extend(y for y, _ in targets(d, x))
    return False


def is_acyclic(d):
    return not any(in_cycle(d, t) for t in d["tasks"])


def dumps(d):
    return json.dumps(d, sort_keys=True, separators=(",", ":"))
