"""Running TLC and reading what it printed."""

import os
import re
import shutil
import subprocess
import tempfile
import time

SPEC_DIR = os.environ.get("VERIF_SPEC_DIR") or os.path.join(os.path.dirname(os.path.dirname(os.path.abspath(__file__))), "spec")
JAR = "/opt/veriftools/tla/tla2tools.jar"


class TLCError(Exception):
    pass


def _tuples(text, tag):
    """All printed tuples  <<"tag", ...>>  (bracket matching; workers interleave lines)."""
    out = []
    needle = '<<"%s"' % tag
    i = 0
    while True:
        i = text.find(needle, i)
        if i < 0:
            return out
        depth, j = 0, i
        while j < len(text):
            if text.startswith("<<", j):
                depth += 1
                j += 2
                continue
            if text.startswith(">>", j):
                depth -= 1
                j += 2
                if depth == 0:
                    break
                continue
            j += 1
        out.append(text[i:j])
        i = j


def parse_tuple(t):
    """<<"V", 3, 17, "C01_x">> -> ["V", 3, 17, "C01_x"] (flat tuples of strings/ints only)."""
    body = t.strip()[2:-2]
    parts = [p.strip() for p in re.split(r',(?=(?:[^"]*"[^"]*")*[^"]*$)', body)]
    out = []
    for p in parts:
        if p.startswith('"'):
            out.append(p.strip('"'))
        elif re.fullmatch(r"-?\d+", p):
            out.append(int(p))
        else:
            out.append(p)
    return out


def run(module, cfg=None, env=None, workers=8, timeout=900, extra=(), simulate=None, depth=None,
        seed=None, workdir=None, heap="6g", spec_dir=None):
    """Run TLC on spec/<module>.tla. Returns dict(out, states, distinct, wall, rc)."""
    cfg = cfg or module + ".cfg"
    meta = tempfile.mkdtemp(prefix="tlcmeta_", dir=workdir)
    cmd = ["java", "-XX:+UseParallelGC", "-Xmx" + heap, "-cp", JAR, "tlc2.TLC",
           "-workers", str(workers), "-metadir", meta, "-noGenerateSpecTE", "-config", cfg]
    if simulate:
        cmd += ["-simulate", simulate]
    if depth:
        cmd += ["-depth", str(depth)]
    if seed is not None:
        cmd += ["-seed", str(seed)]
    cmd += list(extra) + [module + ".tla"]
    e = dict(os.environ)
    e.update(env or {})
    t0 = time.time()
    try:
        p = subprocess.run(cmd, cwd=spec_dir or SPEC_DIR, env=e, stdout=subprocess.PIPE, stderr=subprocess.STDOUT,
                           timeout=timeout, text=True)
        out, rc = p.stdout, p.returncode
    except subprocess.TimeoutExpired as ex:
        out = (ex.stdout or b"").decode() if isinstance(ex.stdout, bytes) else (ex.stdout or "")
        rc = -9
    finally:
        shutil.rmtree(meta, ignore_errors=True)
    wall = time.time() - t0
    m = re.search(r"(\d+) states generated, (\d+) distinct states found", out)
    res = {"out": out, "rc": rc, "wall": wall,
           "states": int(m.group(1)) if m else 0, "distinct": int(m.group(2)) if m else 0}
    return res


def verdicts(out, tag="V"):
    return [parse_tuple(t) for t in _tuples(out, tag)]


def has_error(res):
    o = res["out"]
    return res["rc"] not in (0,) or "Error:" in o or "error" in o.split("Finished")[0].lower() and "No error has been found" not in o
