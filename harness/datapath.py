"""C16: values through the data path, evaluation purity, hidden internals.  Paths are enumerated
by TLC (spec/DataPath.tla); values are drawn here; every stage value is logged type-tagged and the
invariants Preserved / Pure / Hidden are evaluated by TLC on the logged stages."""

import copy
import hashlib
import json
import math
import multiprocessing as mp
from .par import pmap
import os
import random
import re

from . import tlc
from .shorthand import tag

FORMS = {"yaql": ["ctx(%s)", "ctx('%s')", 'ctx("%s")', "ctx().%s"], "jinja": ["ctx('%s')", 'ctx("%s")', "ctx().%s"]}


def ref(lang, form, v):
    body = FORMS[lang][form % len(FORMS[lang])] % v
    return ("<% " + body + " %>") if lang == "yaql" else ("{{ " + body + " }}")


def enumerate_paths(workdir):
    res = tlc.run("DataPath", workers=8, timeout=600, workdir=workdir)
    paths = []
    for m in re.findall(r'<<"DP", "(.*)">>', res["out"]):
        paths.append(json.loads(m.encode().decode("unicode_escape")))
    return paths, res


# ---- values ---------------------------------------------------------------------------------
SPECIAL_STR = ["", " ", "0", "1", "-1", "1.0", "1e5", "true", "True", "false", "null", "None", "NaN", "%s", "%(x)s", "{0}",
               "{}", "[]", "007", "0x10", "a=b", "x in y", "é", "é", "\U0001F600", "中文", "tab\there",
               "line\nbreak", "quote\"s'", "back\\slash", "ctx(x)", "result()", "<", "%", "{", "}}x"[1:], "​"]
SPECIAL_NUM = [0, 1, -1, 2 ** 31, -2 ** 31, 2 ** 53 + 1, 2 ** 63 - 1, -2 ** 63, 2 ** 64, 2 ** 64 + 1, 10 ** 30, -10 ** 40,
               0.0, -0.0, 0.1, 1.5, -2.25, 1e-7, 1e21, 1.7976931348623157e308, 5e-324, 2.2250738585072014e-308,
               0.1 + 0.2, 1 / 3, 123456789.123456789, True, False, None]


def has_delim(v):
    if isinstance(v, str):
        return any(d in v for d in ("<%", "%>", "{{", "}}", "{%", "%}"))
    if isinstance(v, dict):
        return any(has_delim(k) or has_delim(x) for k, x in v.items())
    if isinstance(v, list):
        return any(has_delim(x) for x in v)
    return False


def gen_value(rng, depth=0):
    r = rng.random()
    if depth >= 3 or r < 0.45:
        if rng.random() < 0.5:
            return rng.choice(SPECIAL_NUM)
        if rng.random() < 0.7:
            return rng.choice(SPECIAL_STR)
        return "".join(rng.choice("abc XYZ09_-.,:;!?/\\'\"%{}[]()=é中\U0001F600") for _ in range(rng.randint(0, 12)))
    if r < 0.75:
        return [gen_value(rng, depth + 1) for _ in range(rng.randint(0, 4))]
    return {("k%d" % i if rng.random() < 0.7 else rng.choice(SPECIAL_STR[2:20]) or "k"): gen_value(rng, depth + 1)
            for i in range(rng.randint(0, 4))}


def values(seed, n):
    rng = random.Random(seed)
    out = list(SPECIAL_NUM) + list(SPECIAL_STR) + [[1, [2, [3, {"a": None}]]], {"a": {"b": {"c": [1, 2.5, "x"]}}},
                                                  {"d": {"a": 1}}, [], {}, [[]], {"": 1}]
    while len(out) < n:
        out.append(gen_value(rng))
    out = [v for v in out if not has_delim(v)]
    return out[:n]


def lookalike(v):
    """a value that Python's == cannot tell from v although its JSON type differs (True/1/1.0, 0.0/-0.0, ...);
    None if there is none"""
    if isinstance(v, bool):
        return int(v)
    if isinstance(v, int):
        if v in (0, 1):
            return bool(v)
        return float(v) if abs(v) < 2 ** 53 else None
    if isinstance(v, float):
        if v == 0.0:
            return 0.0 if math.copysign(1, v) < 0 else -0.0
        return int(v) if v == int(v) and abs(v) < 2 ** 53 else None
    if isinstance(v, list):
        for i, x in enumerate(v):
            y = lookalike(x)
            if y is not None:
                return v[:i] + [y] + v[i + 1:]
        return None
    if isinstance(v, dict):
        for k, x in v.items():
            y = lookalike(x)
            if y is not None:
                return dict(v, **{k: y})
        return None
    return None


# ---- one path on the real code ----------------------------------------------------------------
def run_path(path, value, lang):
    """-> list of [stage, tag] the value has at every stage, purity and hiding observations"""
    from .real import native_specs, conducting, events, statuses
    from orquesta.expressions import base as expr_base
    form = path["form"]
    inj = path["inject"]
    persist = set(path["persist"])
    lk = lookalike(value) if not (isinstance(value, float) and (math.isinf(value) or math.isnan(value))) else None
    spec_dict = {"version": 1.0, "input": ["a", {"b": {"dflt": ["marker"]}}], "vars": [{"v": ref(lang, form, "a")}, {"d": {"keep": 1}}, {"w": "old value"},
                                                                         # a value the published one compares equal to (==) although its type differs
                                                                         {"lk": (lk if lk is not None else "old value")}],
                 "tasks": {
                     "t0": {"action": "core.noop"},        # a terminal task that sees the initial context only
                     "t1": {"action": "core.echo", "input": {"p": ref(lang, form, "v")},
                            "next": [{"publish": [{"q": ("<% result() %>" if lang == "yaql" else "{{ result() }}")},
                                                  {"d": {"more": 2}}, {"e": {"first": 1}},
                                                  {"w": ("<% result() %>" if lang == "yaql" else "{{ result() }}")},
                                                  {"lk": ("<% result() %>" if lang == "yaql" else "{{ result() }}")}],
                                      "do": ["t2", "t3"]},
                                     # a sibling transition of the same completion: it is evaluated against the
                                     # context as it was before the first transition published anything
                                     {"publish": [{"d_seen": ref(lang, form, "d")}], "do": ["t5"]}]},
                     "t5": {"action": "core.noop"},
                     "t2": {"action": "core.echo", "input": {"p": ref(lang, form, "q"), "pw": ref(lang, form, "w")},
                            "next": [{"publish": [{"d": {"third": 3}}, {"e": {"second": 2}}], "do": ["t4"]},
                                     # staged before t4 and without t2's publishes (C19: the query is pure)
                                     {"do": ["t2b"]}]},
                     "t2b": {"action": "core.echo", "input": {"p": ref(lang, form, "e")}},
                     "t3": {"action": "core.echo", "input": {"p": ref(lang, form, "d")}, "next": [{"do": ["t4"]}]},
                     "t4": {"join": "all", "action": "core.echo", "input": {"p": ref(lang, form, "q")}}},
                 "output": [{"o": ref(lang, form, "q")}, {"od": ref(lang, form, "d")}, {"ow": ref(lang, form, "w")},
                            {"olk": ref(lang, form, "lk")}]}
    spec = native_specs.WorkflowSpec(copy.deepcopy(spec_dict))
    c = conducting.WorkflowConductor(spec, inputs={"a": copy.deepcopy(value), "b": copy.deepcopy(value)})
    stages, hidden, pure, ctx0s = [], [], [], []
    npers = [0]

    def P(point):
        nonlocal c
        if point in persist:
            c = conducting.WorkflowConductor.deserialize(c.serialize())
            npers[0] += 1

    def scan(where, obj):
        bad = []

        def walk(x, top):
            if isinstance(x, dict):
                for k, v in x.items():
                    if top and isinstance(k, str) and k.startswith("__"):
                        bad.append(k)
                    walk(v, False)
            elif isinstance(x, list):
                for v in x:
                    walk(v, False)
        walk(obj, True)
        hidden.append([where, sorted(set(bad))])

    snaps = []

    def ctx0():
        ctx0s.append(tag(c.workflow_state.contexts[0]) if c.workflow_state.contexts else "none")
        snaps.append([tag(cx) for cx in c.workflow_state.contexts])

    c.request_workflow_status(statuses.RUNNING)
    ctx0()
    stages.append(["input", tag(c.get_workflow_input().get("a"))])
    ic = c.get_workflow_initial_context()
    stages.append(["ctx_a", tag(ic.get("a"))])
    stages.append(["input_b_given_although_defaulted", tag(c.get_workflow_input().get("b"))])
    stages.append(["ctx_b", tag(ic.get("b"))])
    stages.append(["vars_v", tag(ic.get("v"))])
    scan("initial_ctx", ic)
    P(0)
    res_of = {"t0": "r0", "t1": value if inj == "result" else "r1", "t2": "r2", "t3": "r3", "t4": "r4", "t5": "r5", "t2b": "r2b"}
    expect = value
    for rnd in range(4):
        tasks = c.get_next_tasks()
        if not tasks:
            break
        # asking again (twice) gives the same answer and leaves the persisted form alone
        view = lambda ts: tag([[t["id"], t["route"], {k: v for k, v in t["ctx"].items() if not k.startswith("__")},
                                [a.get("input") for a in t["actions"]]] for t in ts])
        dg = lambda: hashlib.sha1(json.dumps(c.serialize()["state"], sort_keys=True, default=str).encode()).hexdigest()
        d1 = dg()
        again = [view(c.get_next_tasks()), view(c.get_next_tasks())]
        pure.append(["query_idem", "same" if again == [view(tasks)] * 2 and dg() == d1 else "changed"])
        for t in tasks:
            scan("offer_ctx_" + t["id"], {k: v for k, v in t["ctx"].items() if k not in ("__state", "__current_task", "__current_item")})
            if t["id"] == "t1":
                stages.append(["t1_input", tag(t["actions"][0]["input"]["p"])])
            if t["id"] in ("t2", "t4") and inj == "result":
                stages.append([t["id"] + "_input", tag(t["actions"][0]["input"]["p"])])
            if t["id"] == "t2" and inj == "result":
                stages.append(["t2_input_overwritten_var", tag(t["actions"][0]["input"]["pw"])])
            if t["id"] == "t3":
                pure.append(["t3_sees_d", tag(t["actions"][0]["input"]["p"])])
            if t["id"] == "t5":
                pure.append(["sibling_sees_d", tag(t["ctx"].get("d_seen", "<missing>"))])
        P(1 + rnd)
        for t in tasks:
            c.update_task_state(t["id"], t["route"], events.ActionExecutionEvent(statuses.RUNNING))
        for t in tasks:
            c.update_task_state(t["id"], t["route"], events.ActionExecutionEvent(statuses.SUCCEEDED, result=copy.deepcopy(res_of[t["id"]])))
            ctx0()
        P(5 + rnd)
    c.render_workflow_output()
    ctx0()
    out = c.get_workflow_output() or {}
    if inj == "result":
        stages.append(["output_o", tag(out.get("o", "<missing>"))])
        stages.append(["output_overwritten_var", tag(out.get("ow", "<missing>"))])
        stages.append(["output_var_overwritten_by_lookalike", tag(out.get("olk", "<missing>"))])
        for i, cx in enumerate(c.workflow_state.contexts):
            if "q" in cx:
                stages.append(["published_q", tag(cx["q"])])
    scan("output", out)
    for cx in c.workflow_state.contexts:
        scan("stored_ctx", cx)
    ser = c.serialize()
    scan("persisted_output", ser.get("output") or {})
    # tail: the output has been rendered (terminal contexts merged); the join is rerun and completes again. What
    # it is offered and what the workflow then renders must not depend on whether the conductor was persisted.
    tail = []
    if path.get("tail"):
        from .real import orq_requests
        P(9)
        try:
            # (the first terminal task, which saw the initial context only, and the join)
            c.request_workflow_rerun([orq_requests.TaskRerunRequest.new("t0", 0), orq_requests.TaskRerunRequest.new("t4", 0)])
            P(10)
            for t in c.get_next_tasks():
                tail.append(["rerun_offer", t["id"], tag({k: v for k, v in t["ctx"].items() if not k.startswith("__")}),
                             tag([a.get("input") for a in t["actions"]])])
                c.update_task_state(t["id"], t["route"], events.ActionExecutionEvent(statuses.RUNNING))
                c.update_task_state(t["id"], t["route"], events.ActionExecutionEvent(statuses.SUCCEEDED, result="r_again"))
            P(11)
            c.render_workflow_output()
            tail.append(["status", c.get_workflow_status()])
            tail.append(["output", tag(c.get_workflow_output() or {})])
            tail.append(["contexts", tag(list(c.workflow_state.contexts))])
        except Exception as e:
            tail.append(["exception", type(e).__name__ + ": " + str(e)[:80]])
    # purity of a single evaluation: the context argument is unchanged
    ectx = {"x": copy.deepcopy(value), "n": {"a": [1, {"b": 2}]}, "__current_task": {"id": "t", "route": 0, "result": copy.deepcopy(value)}}
    before = tag(ectx)
    for e in (ref(lang, form, "x"), ref(lang, form, "n"), {"k": [ref(lang, form, "x")]}):
        try:
            expr_base.evaluate(e, ectx)
        except Exception:
            pass
    pure.append(["evaluate_ctx_unchanged", "same" if tag(ectx) == before else "changed"])
    # internals are not readable through the context function
    priv = []
    for name in ("__state", "__current_task", "__xyz"):
        pctx = {"x": 1, "__state": {"s": 1}, "__current_task": {"id": "t", "route": 0}, "__xyz": 5}
        for f in range(len(FORMS[lang])):
            if FORMS[lang][f].startswith("ctx()."):
                continue
            try:
                v = expr_base.evaluate(ref(lang, f, name), pctx)
                priv.append([name, f, "readable:" + tag(v)[:30]])
            except Exception as ex:
                priv.append([name, f, "rejected"])
        try:
            v = expr_base.evaluate(("<% ctx() %>" if lang == "yaql" else "{{ ctx() }}"), pctx)
            priv.append([name, -1, "listed" if isinstance(v, dict) and any(k.startswith("__") for k in v) else "rejected"])
        except Exception:
            priv.append([name, -1, "rejected"])
    ctx0()
    return {"expect": tag(expect), "stages": stages, "hidden": hidden, "pure": pure, "ctx0": ctx0s, "snaps": snaps, "tail": tail,
            "status": c.get_workflow_status(), "priv": priv, "npersist": npers[0],
            "errors": [e.get("message", "")[:80] for e in c.errors]}


def _job(job):
    path, value, lang, vid = job
    try:
        fin = run_path(path, value, lang)
    except Exception as e:
        import traceback
        fin = {"expect": tag(value), "stages": [["exception", type(e).__name__ + ": " + str(e)[:100]]], "hidden": [], "pure": [],
               "ctx0": [], "snaps": [], "status": "exception", "priv": [], "npersist": 0, "errors": [traceback.format_exc()[-300:]]}
    return {"kind": "datapath", "def": {"name": "c16"}, "case": dict(path, lang=lang, vid=vid),
            "members": [{"role": "run", "fin": fin, "sched": []}], "replay": {"path": path, "value": repr(value), "lang": lang}}


def _pair_job(job):
    path, value, lang, vid = job
    try:
        live = run_path(dict(path, persist=[], tail=True), value, lang)
        rest = run_path(dict(path, persist=list(range(12)), tail=True), value, lang)
        f = lambda r: {"trail": [r["stages"], r["pure"], r["snaps"], r["tail"]], "final": [r["status"], r["errors"], r["tail"][-2:]],
                       "reser": True, "npersist": r["npersist"], "wf": r["status"]}
        return {"kind": "persist", "def": {"name": "c16host"}, "case": dict(path, lang=lang, vid=vid),
                "members": [{"role": "live", "fin": f(live), "sched": []}, {"role": "restored", "fin": f(rest), "sched": [], "points": "all"}],
                "replay": {"path": path, "value": repr(value), "lang": lang}}
    except Exception as e:
        import traceback
        return {"error": "%s: %s\n%s" % (type(e).__name__, e, traceback.format_exc()[-400:])}


def persist_pairs(paths, vals, seed=0):
    """C05 on the data-path host (nested values, publishes over publishes, output rendered, a rerun after it): the
    same path run on a conductor that is never persisted and on one that is restored after every call"""
    rng = random.Random(seed)
    jobs = []
    for vid, v in enumerate(vals):
        p = rng.choice(paths)
        lang = "yaql" if p["form"] < 4 else "jinja"
        jobs.append((dict(p, form=p["form"] if lang == "yaql" else p["form"] - 4), v, lang, vid))
    outs = pmap(_pair_job, jobs)
    return [o for o in outs if "error" not in o], [o for o in outs if "error" in o]


def datapath_groups(paths, vals, seed=0, per_value=3):
    rng = random.Random(seed)
    jobs = []
    for vid, v in enumerate(vals):
        for p in rng.sample(paths, min(per_value, len(paths))):
            lang = "yaql" if p["form"] < 4 else "jinja"
            pp = dict(p, form=p["form"] if lang == "yaql" else p["form"] - 4)
            jobs.append((pp, v, lang, vid))
    return pmap(_job, jobs)
