"""C14: observed graphs of the real composer under permutations of the declaration order."""

import copy
import hashlib
import itertools
import json
import multiprocessing as mp
from .par import pmap
import random

from . import defs as D
from . import explore as X


def _dg(x):
    return hashlib.sha1(json.dumps(x, sort_keys=True, default=str).encode()).hexdigest()[:20]


def observe(d, order, lang="yaql"):
    from .real import native_specs
    from orquesta import graphing
    from orquesta.composers import native as composer
    spec_dict = D.concretise(d, lang)
    spec_dict["tasks"] = {t: spec_dict["tasks"][t] for t in order}
    spec = native_specs.WorkflowSpec(copy.deepcopy(spec_dict))
    g = composer.WorkflowComposer.compose(spec)
    return observe_graph(g, d, order, lang)


def conducted_graph(d, lang="yaql", max_steps=40):
    """the graph a conductor holds after it has conducted a history in which every action fails as long as it may
    (retries are exhausted, failure transitions are taken): conducting must leave the composed graph alone"""
    r = X.Real(d, lang=lang, tok="task")
    X.apply_choice(r, ["boot"], False)
    for _ in range(max_steps):
        chs = r.report_choices()
        if not chs or len(r.acts) > 12:          # (splits in cycles multiply the executions: a short history is enough)
            break
        bad = [c for c in chs if c[3] == "failed"]
        X.apply_choice(r, ["rep"] + (bad[0] if bad else chs[0]), False)
    return observe_graph(r.c.graph, d, list(d["tasks"]), lang)


def observe_graph(g, d, order, lang="yaql"):
    from orquesta import graphing
    # criteria string -> abstract condition
    inv = {}
    for t, td in d["tasks"].items():
        for n in td["next"]:
            inv[D.cond_expr(lang, n["when"])] = X.tla_cond(n["when"])
        if td["retry"]["on"] and td["retry"]["when"] != "default":
            inv[D.cond_expr(lang, td["retry"]["when"])] = X.tla_cond(td["retry"]["when"])
    nodes = []
    for nid, attrs in g._graph.nodes(data=True):
        b = attrs.get("barrier")
        r = attrs.get("retry")
        if r is None:
            rr = {"on": False, "count": 0, "when": X.tla_cond("default"), "delay": -1}
        else:
            w = r.get("when")
            if w is None:
                wc = X.tla_cond("default")
            elif w in inv:
                wc = inv[w]
            elif "completed()" in w:
                wc = X.tla_cond("completed")
            else:
                wc = {"k": "unknown", "v": str(w)[:20], "n": 0}
            rr = {"on": True, "count": r.get("count") if isinstance(r.get("count"), int) else -9,
                  "when": wc, "delay": r.get("delay") if isinstance(r.get("delay"), int) else -1}
        nodes.append({"id": nid, "barrier": -9 if b is None else (-1 if b == "*" else b), "retry": rr,
                      "splits": list(attrs.get("splits", []))})
    edges = []
    for s, t, k, a in g._graph.edges(data=True, keys=True):
        crit = a.get("criteria") or []
        c = inv.get(crit[0] if crit else None, {"k": "unknown", "v": str(crit)[:20], "n": 0})
        edges.append({"src": s, "dst": t, "key": k, "ref": a.get("ref"), "when": c})
    ser = g.serialize()
    g2 = graphing.WorkflowGraph.deserialize(ser)
    ser2 = g2.serialize()

    def trans(gr):
        out = {}
        for nid in sorted(gr._graph.nodes()):
            out[nid] = [[(e[0], e[1], e[2], json.dumps(e[3], sort_keys=True)) for e in gr.get_next_transitions(nid)],
                        # the order of inbound transitions is not observable (they are evaluated as a set)
                        sorted((e[0], e[1], e[2], json.dumps(e[3], sort_keys=True)) for e in gr.get_prev_transitions(nid))]
        return out
    return {"nodes": nodes, "edges": edges, "roots": [r["id"] for r in g.roots], "digest": _dg(ser), "digest_rt": _dg(ser2),
            "trans": _dg(trans(g)), "trans_rt": _dg(trans(g2)), "order": list(order)}


def _job(job):
    d, lang, nperm, seed = job
    try:
        names = list(d["tasks"])
        perms = list(itertools.permutations(names)) if len(names) <= 4 else None
        rng = random.Random(seed)
        if perms is None or len(perms) > nperm:
            chosen = [tuple(names), tuple(reversed(names)), tuple(sorted(names)), tuple(sorted(names, reverse=True))]
            while len(chosen) < nperm:
                p = names[:]
                rng.shuffle(p)
                chosen.append(tuple(p))
        else:
            chosen = perms
        ms = [{"role": "perm", "fin": observe(d, order, lang), "sched": list(order)} for order in chosen]
        if any(t["retry"]["on"] or D.RETRY_CMD in [x for n in t["next"] for x in n["do"]] for t in d["tasks"].values()):
            try:            # the node attributes a conductor works with (retry policies) must stay as composed
                ms.append({"role": "conducted", "fin": conducted_graph(d, lang, 20), "sched": []})
            except Exception:
                pass        # (a definition the driver cannot conduct contributes its composed graphs only)
        return {"kind": "graph", "def": X.tla_def(d), "members": ms, "replay": {"def": d, "lang": lang}}
    except Exception as e:
        import traceback
        return {"error": "%s: %s\n%s" % (type(e).__name__, e, traceback.format_exc()[-600:]), "def": d["name"]}


def graph_groups(defs, nperm=8, seed=0, langs=("yaql", "jinja")):
    jobs = [(d, langs[i % len(langs)], nperm, seed + i) for i, d in enumerate(defs)]
    outs = pmap(_job, jobs)
    return [o for o in outs if "error" not in o], [o for o in outs if "error" in o]
