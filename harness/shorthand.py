"""C20: shorthand / longhand twins.  The cases are enumerated by TLC (spec/Params.tla); this module
renders them, runs both members on the real code and collects what C20 compares."""

import copy
import hashlib
import json
import multiprocessing as mp
from .par import pmap
import os
import random
import re

from . import tlc

# class -> [(text as written inline, long-form python value)]
CORPUS = {
    "int": [("1", 1), ("42", 42), ("0", 0)],
    "negint": [("-7", -7), ("-100", -100)],
    "dec": [("1.5", 1.5), ("-0.25", -0.25), ("10.0", 10.0)],
    "bool": [("true", True), ("True", True), ("FALSE", False)],
    "null": [("null", None)],
    "dq": [('"abc"', "abc"), ('"a b c"', "a b c"), ('"it\'s k=v, x in y; z"', "it's k=v, x in y; z"),
           ('"say \'x\'"', "say 'x'"), ('"\'lead\' and tail"', "'lead' and tail")],
    "sq": [("'abc'", "abc"), ("'say \"hi\" k=v'", 'say "hi" k=v'), ("'a, b; c in d'", "a, b; c in d"),
           # the other kind of quote right inside the enclosing one
           ("'echo \"hi\"'", 'echo "hi"'), ("'\"lead\" and tail'", '"lead" and tail')],
    "json": [("'{\"a\": 1}'", {"a": 1}), ("'{\"Name\": \"Bob\", \"n\": [1, 2]}'", {"Name": "Bob", "n": [1, 2]}),
             ('\'{"k": "<% ctx().x %>"}\'', {"k": "<% ctx().x %>"})],
    "yaql": [("<% ctx(x) %>", "<% ctx(x) %>"), ("<% ctx().x + 1 %>", "<% ctx().x + 1 %>")],
    "jinja": [("{{ ctx('x') }}", "{{ ctx('x') }}"), ("{{ ctx().x }}", "{{ ctx().x }}")],
}
DELIM = {"space": " ", "comma": ", ", "semicolon": "; "}


def tag(v):
    """type-tagged canonical string (bool != int != float, dict keys sorted)"""
    if isinstance(v, bool):
        return "bool:" + str(v).lower()
    if isinstance(v, int):
        return "int:%d" % v
    if isinstance(v, float):
        return "float:" + repr(v)
    if v is None:
        return "null"
    if isinstance(v, str):
        return "str:" + v
    if isinstance(v, dict):
        return "dict:{" + ",".join("%s=%s" % (k, tag(v[k])) for k in sorted(v)) + "}"
    if isinstance(v, (list, tuple)):
        return "list:[" + ",".join(tag(x) for x in v) + "]"
    return "other:" + repr(v)


def write_corpus(path):
    with open(path, "w") as f:
        json.dump({c: [{"text": t, "value": tag(v)} for t, v in reps] for c, reps in CORPUS.items()}, f)


def enumerate_cases(workdir, max_len=2):
    cpath = os.path.join(workdir, "corpus.json")
    write_corpus(cpath)
    cfg = os.path.join(workdir, "Params_%d.cfg" % os.getpid())       # (absolute path: nothing is written into spec/)
    with open(cfg, "w") as f:
        f.write("SPECIFICATION Spec\nCONSTANTS\n  MaxLen = %d\nINVARIANT Emit\nCHECK_DEADLOCK FALSE\n" % max_len)
    try:
        res = tlc.run("Params", cfg=cfg, env={"CORPUS_FILE": cpath}, workers=16, timeout=900, workdir=workdir)
    finally:
        os.unlink(cfg)
    cases = []
    for m in re.findall(r'<<"P", "(.*)">>', res["out"]):
        cases.append(json.loads(m.encode().decode("unicode_escape")))
    return cases, res


def twins(case):
    """-> (short spec dict, long spec dict, names of the parameters)"""
    base = {"version": 1.0, "vars": [{"x": 5}, {"xs": [1, 2]}, {"ps": [[1, 2], [3, 4]]}],
            "tasks": {"t1": {"action": "core.noop", "next": [{"do": ["t2"]}]},
                      "t2": {"action": "core.noop", "next": [{"do": ["t3"]}]}, "t3": {"action": "core.noop"}},
            "output": [{"ox": "<% ctx(x) %>"}]}
    s, l = copy.deepcopy(base), copy.deepcopy(base)
    names = []
    if case["kind"] == "params":
        vals = [CORPUS[c][i - 1] for c, i in case["vals"]]
        names = ["p%d" % k for k in range(len(vals))]
        text = DELIM[case["delim"]].join("%s=%s" % (n, v[0]) for n, v in zip(names, vals))
        if case["pos"] == "action":
            s["tasks"]["t1"]["action"] = "core.echo " + text
            l["tasks"]["t1"]["action"] = "core.echo"
            l["tasks"]["t1"]["input"] = {n: copy.deepcopy(v[1]) for n, v in zip(names, vals)}
        else:
            s["tasks"]["t1"]["next"] = [{"publish": text, "do": ["t2"]}]
            l["tasks"]["t1"]["next"] = [{"publish": [{n: copy.deepcopy(v[1])} for n, v in zip(names, vals)], "do": ["t2"]}]
            out = [{"o_" + n: "<% ctx(" + n + ") %>"} for n in names]
            s["output"] += out
            l["output"] += copy.deepcopy(out)
    elif case["kind"] == "do":
        txt = {"comma_space": "t2, t3", "comma": "t2,t3", "single": "t2"}[case["pos"]]
        lst = {"comma_space": ["t2", "t3"], "comma": ["t2", "t3"], "single": ["t2"]}[case["pos"]]
        for m, v in ((s, txt), (l, lst)):
            m["tasks"]["t1"]["next"] = [{"when": "<% succeeded() %>", "publish": [{"y": "<% result() %>"}], "do": v}]
            m["tasks"]["t2"] = {"action": "core.noop"}
            m["output"] = [{"oy": "<% ctx(y) %>"}]
    elif case["kind"] == "with":
        sh = {"expr": "<% ctx(xs) %>", "x_in": "i in <% ctx(xs) %>", "xy_in": "a, b in <% ctx(ps) %>"}[case["pos"]]
        inp = {"expr": "<% item() %>", "x_in": "<% item(i) %>", "xy_in": "<% item(a) + item(b) %>"}[case["pos"]]
        for m, v in ((s, sh), (l, {"items": sh})):
            m["tasks"]["t1"] = {"with": v, "action": "core.echo", "input": {"message": inp},
                                "next": [{"publish": [{"r": "<% result() %>"}], "do": ["t2"]}]}
            m["output"] = [{"or": "<% ctx(r) %>"}]
    elif case["kind"] == "nodo":
        s["tasks"]["t1"]["next"] = [{"when": "<% succeeded() %>", "publish": [{"y": 1}]}]
        l["tasks"]["t1"]["next"] = [{"when": "<% succeeded() %>", "publish": [{"y": 1}], "do": "continue"}]
        for m in (s, l):
            m["output"] = [{"oy": "<% ctx(y) %>"}]
    return s, l, names


def _dg(x):
    return hashlib.sha1(json.dumps(x, sort_keys=True, default=str).encode()).hexdigest()[:16]


def observe(spec_dict, names, pos):
    from .real import native_specs, conducting, events, statuses
    spec = native_specs.WorkflowSpec(copy.deepcopy(spec_dict))
    t1 = spec.tasks.get_task("t1")
    parsed = []
    if pos == "action":
        inp = getattr(t1, "input", None) or {}
        parsed = [tag(inp.get(n, "<missing>")) for n in names]
    elif pos == "publish":
        pub = getattr(t1.next[0], "publish", None) or []
        pd = {}
        for p in pub:
            pd.update(p)
        parsed = [tag(pd.get(n, "<missing>")) for n in names]
    graph = _dg(conducting.WorkflowConductor(spec).graph.serialize())
    insp = _dg(spec.inspect())
    c = conducting.WorkflowConductor(spec)
    c.request_workflow_status(statuses.RUNNING)
    trail = []
    for _ in range(12):
        tasks = c.get_next_tasks()
        if not tasks:
            break
        trail.append([[t["id"], t["route"], [[a["action"], tag(a.get("input")), a.get("item_id", -1)] for a in t["actions"]]] for t in tasks])
        for t in tasks:
            if t["spec"].has_items():
                acc = []
                for a in t["actions"]:
                    c.update_task_state(t["id"], t["route"], events.TaskItemActionExecutionEvent(a["item_id"], statuses.RUNNING))
                for a in t["actions"]:
                    acc.append(a["item_id"] * 10)
                    c.update_task_state(t["id"], t["route"], events.TaskItemActionExecutionEvent(
                        a["item_id"], statuses.SUCCEEDED, result=a["item_id"] * 10, accumulated_result=list(acc)))
                if not t["actions"]:
                    c.update_task_state(t["id"], t["route"], events.ActionExecutionEvent(statuses.RUNNING))
                    c.update_task_state(t["id"], t["route"], events.ActionExecutionEvent(statuses.SUCCEEDED, result=[]))
            else:
                c.update_task_state(t["id"], t["route"], events.ActionExecutionEvent(statuses.RUNNING))
                c.update_task_state(t["id"], t["route"], events.ActionExecutionEvent(statuses.SUCCEEDED, result=7))
    c.render_workflow_output()
    ctxs = [{k: tag(v) for k, v in cx.items()} for cx in c.workflow_state.contexts]
    return {"parsed": parsed, "graph": graph, "inspect": insp, "trail": _dg(trail), "ctxs": _dg(ctxs),
            "output": tag(c.get_workflow_output()), "status": c.get_workflow_status(),
            "errors": _dg([e.get("message", "")[:60] for e in c.errors]),
            "detail": {"trail": trail, "ctxs": ctxs}}


def _job(case):
    try:
        s, l, names = twins(case)
        ms = []
        for role, m in (("short", s), ("long", l)):
            try:
                fin = observe(m, names, case["pos"])
            except Exception as e:
                fin = {"parsed": [], "graph": "EXC", "inspect": "EXC", "trail": "EXC", "ctxs": "EXC", "output": "EXC",
                       "status": type(e).__name__ + ": " + str(e)[:80], "errors": "EXC", "detail": {}}
            ms.append({"role": role, "fin": fin, "sched": []})
        return {"kind": "shorthand", "def": {"name": "c20"}, "case": case, "members": ms, "replay": {"short": s, "long": l}}
    except Exception as e:
        import traceback
        return {"error": "%s: %s %s" % (type(e).__name__, e, traceback.format_exc()[-500:])}


def shorthand_groups(cases, cap=None, seed=0):
    if cap and len(cases) > cap:
        rng = random.Random(seed)
        fixed = [c for c in cases if c["kind"] != "params" or len(c["vals"]) == 1]
        rest = [c for c in cases if not (c["kind"] != "params" or len(c["vals"]) == 1)]
        cases = fixed + rng.sample(rest, max(0, min(len(rest), cap - len(fixed))))
    outs = pmap(_job, cases)
    return [o for o in outs if "error" not in o], [o for o in outs if "error" in o]
