"""Builders of relational groups (paused vs de-paused twin, all orders of a scenario, live vs
restored).  They only *run the real code and collect final observations*; the relations are in
spec/Groups.tla."""

import itertools
import multiprocessing as mp
from .par import pmap
import random

from . import explore as X
from . import pipeline as P
from .real import ACTIVE_ACTION, DORMANT_ACTION

TERMINAL = ("succeeded", "failed", "canceled")


def _twin_job(job):
    d, sched, lang, tok = job
    try:
        r = X.Real(d, lang=lang, tok=tok)
        X.apply_choice(r, ["boot"])
        for ch in sched[1:]:
            if ch[0] == "req":
                continue
            if ch[0] == "rep":
                st = r.acts.get((ch[1], ch[2], ch[3]))
                if st not in ACTIVE_ACTION + DORMANT_ACTION:
                    return None          # infeasible twin (must not happen with the eager provider)
            X.apply_choice(r, list(ch))
        return r.fin()
    except Exception as e:
        return {"error": "%s: %s" % (type(e).__name__, e)}


def pause_groups(results, max_per_tree=60, rng=None):
    """One group per terminal leaf whose history contains a pause and its resume."""
    rng = rng or random.Random(0)
    cands = []
    for r in results:
        leaves = [n for n, f in r["fins"].items() if f["rest"]]      # incl. runs that got stuck after the resume
        picked = []
        for n in leaves:
            sched = P.node_schedule(r, n)
            ops = [tuple(c[:2]) for c in sched if c[0] == "req"]
            if ("req", "pausing") in ops and ("req", "resuming") in ops and ("req", "canceling") not in ops:
                picked.append((n, sched))
        if len(picked) > max_per_tree:
            picked = rng.sample(picked, max_per_tree)
        for n, sched in picked:
            cands.append((r, n, sched))
    jobs = [(r["d"], sched, r["lang"], r["tok"]) for r, n, sched in cands]
    if not jobs:
        return [], 0
    fins = pmap(_twin_job, jobs)
    groups, infeasible = [], 0
    for (r, n, sched), tw in zip(cands, fins):
        if tw is None or "error" in tw:
            infeasible += 1
            continue
        groups.append({"kind": "pause", "def": X.tla_def(r["d"]),
                       "members": [{"role": "paused", "fin": r["fins"][n], "sched": sched},
                                   {"role": "twin", "fin": tw, "sched": [c for c in sched if c[0] != "req"]}],
                       "replay": {"def": r["d"], "lang": r["lang"], "tok": r["tok"], "schedule": sched}})
    return groups, infeasible


def fate_assignments(d, cap=16, rng=None):
    names = sorted(d["tasks"])
    combos = list(itertools.product(*[d["fates"].get(t, ["s"]) for t in names]))
    if len(combos) > cap:
        combos = (rng or random.Random(0)).sample(combos, cap)
    out = []
    for c in combos:
        dd = dict(d)
        dd["fates"] = {t: [f] for t, f in zip(names, c)}
        dd["name"] = d["name"] + "_" + "".join(c)
        out.append(dd)
    return out


def order_groups(results):
    """All terminal leaves of one (definition, outcome-per-task) scenario."""
    groups = []
    for r in results:
        if r["truncated"]:
            continue
        ms = []
        for n, f in sorted(r["fins"].items()):
            if f["wf"] in TERMINAL and f["rest"]:
                ms.append({"role": "order", "fin": f, "sched": P.node_schedule(r, n)})
        if len(ms) >= 2:
            groups.append({"kind": "order", "def": X.tla_def(r["d"]), "members": ms,
                           "replay": {"def": r["d"], "lang": r["lang"], "tok": r["tok"]}})
    return groups


def _persist_job(job):
    d, sched, lang, tok, points, lazy = job
    try:
        live = X.Real(d, lang=lang, tok=tok)
        for ch in sched:
            X.apply_choice(live, list(ch), lazy)
        rest = X.Real(d, lang=lang, tok=tok)
        rest.persist_points = points
        for ch in sched:
            X.apply_choice(rest, list(ch), lazy)
        def f(r):
            o = r.fin()
            return {"trail": r.trail(), "final": [o["wf"], o["errs"], o["out"], o["hasout"]],
                    "reser": all(a == b for a, b in r.reser), "npersist": len(r.reser), "wf": o["wf"]}
        return [f(live), f(rest)]
    except Exception as e:
        import traceback
        return {"error": "%s: %s %s" % (type(e).__name__, e, traceback.format_exc()[-400:])}


def persist_groups(results, per_tree=6, rng=None, subsets=2, lean=False):
    rng = rng or random.Random(0)
    jobs, meta = [], []
    for r in results:
        leaves = sorted(r["fins"])
        if not leaves:
            continue
        for n in (leaves if len(leaves) <= per_tree else rng.sample(leaves, per_tree)):
            sched = P.node_schedule(r, n)
            ncalls = len(P_path_steps(r, n))
            plist = ["all"]
            for _ in range(subsets):
                k = rng.randint(1, max(1, ncalls))
                plist.append(sorted(rng.sample(range(1, ncalls + 1), min(k, ncalls))))
            plist.append([rng.randint(1, ncalls)])
            if not lean:
                plist.append([0])
                plist.append([0, 1, 2])
            for pts in plist:
                jobs.append((r["d"], sched, r["lang"], r["tok"], pts if pts == "all" else set(pts),
                             bool(r["env"].get("lazy"))))
                meta.append((r, sched, pts))
    if not jobs:
        return [], 0
    outs = pmap(_persist_job, jobs)
    groups, errors = [], 0
    for (r, sched, pts), o in zip(meta, outs):
        if isinstance(o, dict):
            errors += 1
            continue
        groups.append({"kind": "persist", "def": X.tla_def(r["d"]),
                       "members": [{"role": "live", "fin": o[0], "sched": sched},
                                   {"role": "restored", "fin": o[1], "sched": sched, "points": pts if pts == "all" else list(pts)}],
                       "replay": {"def": r["d"], "lang": r["lang"], "tok": r["tok"], "schedule": sched,
                                  "persist_points": pts if pts == "all" else list(pts)}})
    return groups, errors


def P_path_steps(r, node):
    nodes = r["tree"]["nodes"]
    out, n = [], node
    while n:
        out.append(n)
        n = nodes[n - 1]["p"]
    return out


def _clean_job(job):
    d, lang, tok = job
    try:
        t = X.explore(d, {"max_nodes": 3000}, lang=lang, tok=tok)
        return [f for n, f in sorted(t.fins.items()) if f["rest"]], t.truncated
    except Exception as e:
        return {"error": "%s: %s" % (type(e).__name__, e)}, True


def rerun_groups(results, max_per_tree=40, rng=None):
    """Leaves of rerun histories in which every report after the (last) rerun succeeded, each
    with the terminal observations of the clean scenario (last reported status per task)."""
    rng = rng or random.Random(0)
    cands = []
    for r in results:
        if not D_is_plain(r["d"]):
            continue
        picked = []
        for n, f in r["fins"].items():
            if not (f["rest"] and f["wf"] in TERMINAL):
                continue
            sched = P.node_schedule(r, n)
            idx = [i for i, c in enumerate(sched) if c[0] == "rerun"]
            if not idx:
                continue
            after = [c for c in sched[idx[-1] + 1:] if c[0] == "rep"]
            if not after or any(c[4] != "succeeded" for c in after):
                continue
            if any(c[0] == "req" for c in sched[idx[-1] + 1:]):
                continue            # a cancel / pause requested after the rerun: the convergence claim does not apply
            last = {}
            multi = False
            for c in sched:
                if c[0] == "rep" and c[4] in ("succeeded", "failed"):
                    last[c[1]] = c[4]
            fates = {t: ["s" if last.get(t, "succeeded") == "succeeded" else "f"] for t in r["d"]["tasks"]}
            # does the (last) rerun request leave a failed execution or a fail command behind?
            req = sched[idx[-1]][1]
            pre = P_obs_before(r, n, idx[-1])
            doom = [e for e in pre["seq"] if e["st"] in ("failed", "timeout", "abandoned")]
            if req:
                left = [e for e in doom if [e["id"], e["route"]] not in [[q[0], q[1]] for q in req]]
            else:
                left = [e for e in doom if e["id"] == "fail" or not e["term"]]
            covered = {q[0] for q in req} if req else {e["id"] for e in doom if e["term"] and e["id"] != "fail"}
            if any(e["cls"] == "expr" and e["task"] not in covered for e in pre["errs"]):
                left = left or [True]        # a run-time expression error of the first run stands
            # terminal records of the final state that descend from the superseded executions of the
            # requested tasks: distance 1 = direct successor (those the rerun is meant to reset)
            fin_obs = r["tree"]["nodes"][n - 1]["obs"]
            if req:
                olds = {pre["ptr"].get("%s__r%d" % (q[0], q[1])) for q in req}
            else:
                olds = {i for i, e in enumerate(pre["seq"]) if e["term"] and e["st"] in ("failed", "timeout", "abandoned")}
            olds.discard(None)
            depth = {i: 0 for i in olds}
            for i, e in enumerate(fin_obs["seq"]):
                ds = [depth[p] + 1 for p in e["prev"].values() if p in depth]
                if ds and i not in olds:
                    depth[i] = min(ds)
            # ... among the records that existed when the rerun was requested; later records that descend
            # from a superseded execution were started from staging it left behind (S14 as well)
            stale = [depth[i] for i, e in enumerate(fin_obs["seq"])
                     if e["term"] and i in depth and depth[i] > 0 and i < len(pre["seq"])]
            # records started after the rerun that descend from a superseded execution: left-over staging ran
            staged_left = any(i >= len(pre["seq"]) and depth.get(i, 0) >= 1 for i in range(len(fin_obs["seq"])))
            picked.append((n, sched, fates, bool(left), (min(stale) if stale else 99) + (1000 if staged_left else 0)))
        if len(picked) > max_per_tree:
            picked = rng.sample(picked, max_per_tree)
        for n, sched, fates, partial, sd in picked:
            cands.append((r, n, sched, fates, partial, sd))
    cache, jobs = {}, []
    for r, n, sched, fates, partial, sd in cands:
        key = (r["d"]["name"], tuple(sorted((t, f[0]) for t, f in fates.items())))
        if key not in cache:
            dd = dict(r["d"])
            dd["fates"] = fates
            dd["name"] = r["d"]["name"] + "_clean"
            cache[key] = len(jobs)
            jobs.append((dd, r["lang"], r["tok"]))
    if not jobs:
        return [], 0
    outs = pmap(_clean_job, jobs)
    groups, skipped = [], 0
    for r, n, sched, fates, partial, sd in cands:
        key = (r["d"]["name"], tuple(sorted((t, f[0]) for t, f in fates.items())))
        fins, trunc = outs[cache[key]]
        if trunc or isinstance(fins, dict) or not fins:
            skipped += 1
            continue
        ms = [{"role": "rerun", "fin": r["fins"][n], "sched": sched}]
        seen = set()
        for f in fins:
            k = (f["wf"], str(sorted(f["out"].items())))
            if k in seen:
                continue
            seen.add(k)
            ms.append({"role": "clean", "fin": f, "sched": []})
        ms[0]["fin"] = dict(ms[0]["fin"], partial=partial, stale_min_depth=sd)
        groups.append({"kind": "rerun", "def": X.tla_def(r["d"]), "members": ms,
                       "replay": {"def": r["d"], "lang": r["lang"], "tok": r["tok"], "schedule": sched,
                                  "clean_fates": fates}})
    return groups, skipped


def D_is_plain(d):
    """acyclic, no retry: one execution per task name and route is what 'clean run' can mean"""
    from . import defs as DD
    return DD.is_acyclic(d) and not any(t["retry"]["on"] for t in d["tasks"].values())


def P_obs_before(r, leaf, k):
    """observation just before the k-th choice of the schedule ending at `leaf`"""
    nodes = r["tree"]["nodes"]
    path = list(reversed(P_path_steps(r, leaf)))
    seen = -1
    prev = None
    for n in path:
        if r["sched"][n] is not None:
            seen += 1
            if seen == k:
                return nodes[prev - 1]["obs"] if prev else nodes[n - 1]["obs"]
        prev = n
    return nodes[path[-1] - 1]["obs"]


def seed_groups(results, seeds=(0, 1, 7), per_tree=3, rng=None, workdir="/tmp", inspect_only=()):
    """sampled complete histories, each replayed in one subprocess per hash seed"""
    import json as _json
    import os as _os
    import subprocess
    rng = rng or random.Random(0)
    jobs = []
    for r in results:
        leaves = sorted(r["fins"])
        if not leaves:
            continue
        for n in (leaves if len(leaves) <= per_tree else rng.sample(leaves, per_tree)):
            jobs.append({"def": r["d"], "sched": P.node_schedule(r, n), "lang": r["lang"], "lazy": bool(r["env"].get("lazy"))})
    for d in inspect_only:          # definitions that are only inspected (they cannot be conducted)
        for lang in ("yaql", "jinja"):
            jobs.append({"def": d, "sched": [], "lang": lang, "lazy": False, "inspect_only": True})
    if not jobs:
        return [], []
    script = _os.path.join(_os.path.dirname(_os.path.abspath(__file__)), "seedrun.py")
    nchunk = max(1, min(16 // len(seeds), len(jobs)))
    chunks = [jobs[k::nchunk] for k in range(nchunk)]
    procs = []
    for k, ch in enumerate(chunks):
        path = _os.path.join(workdir, "seedjobs_%d.json" % k)
        with open(path, "w") as f:
            _json.dump(ch, f)
        for sd in seeds:
            env = dict(_os.environ, PYTHONHASHSEED=str(sd))
            procs.append((sd, k, subprocess.Popen(["/venv/bin/python", script, path], env=env, stdout=subprocess.PIPE,
                                                  stderr=subprocess.PIPE, text=True)))
    outs, errs = {sd: [None] * len(jobs) for sd in seeds}, []
    for sd, k, p in procs:
        o, e = p.communicate(timeout=1500)
        try:
            res = _json.loads(o)
            for idx, f in zip(range(k, len(jobs), nchunk), res):
                outs[sd][idx] = f
        except Exception:
            errs.append("seed %s chunk %s: rc=%s %s" % (sd, k, p.returncode, e[-800:]))
    groups = []
    if errs:
        return groups, errs
    for i, j in enumerate(jobs):
        ms = []
        bad = False
        for sd in seeds:
            f = outs[sd][i]
            if "error" in f:
                bad = True
                errs.append(f["error"])
                break
            ms.append({"role": "seed%s" % sd, "fin": f, "sched": j["sched"]})
        if not bad:
            groups.append({"kind": "seed", "def": ({"name": j["def"]["name"]} if j.get("inspect_only") else X.tla_def(j["def"])),
                           "members": ms,
                           "replay": {"def": j["def"], "lang": j["lang"], "schedule": j["sched"]}})
    return groups, errs
