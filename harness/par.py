"""Process-parallel map that cannot hang: a worker that dies (OOM kill, crash) breaks the executor,
the unfinished jobs are then retried in a fresh executor and finally one by one in-process."""

import concurrent.futures as cf
import os


def pmap(fn, jobs, procs=16, chunksize=1):
    jobs = list(jobs)
    if not jobs:
        return []
    if procs <= 1 or len(jobs) == 1:
        return [fn(j) for j in jobs]
    results = [None] * len(jobs)
    todo = list(range(len(jobs)))
    for attempt in range(2):
        if not todo:
            break
        done = []
        try:
            with cf.ProcessPoolExecutor(max_workers=min(procs, len(todo))) as ex:
                futs = {ex.submit(fn, jobs[i]): i for i in todo}
                for f in cf.as_completed(futs):
                    i = futs[f]
                    try:
                        results[i] = f.result()
                        done.append(i)
                    except cf.process.BrokenProcessPool:
                        raise
                    except Exception as e:      # the job itself raised: report it as its result
                        results[i] = {"ok": False, "error": "%s: %s" % (type(e).__name__, e), "err": "%s: %s" % (type(e).__name__, e)}
                        done.append(i)
        except cf.process.BrokenProcessPool:
            pass
        todo = [i for i in todo if i not in set(done)]
    for i in todo:                              # last resort: in this process
        results[i] = fn(jobs[i])
    return results
