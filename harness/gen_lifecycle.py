"""One-off transcription helper: prints spec/Lifecycle.tla from the tables in orquesta/machines.py.
The emitted file is committed and is *the specification's* copy; `check lifecycle` compares it
cell by cell with whatever tree is under /repo at check time."""
import sys
import os
sys.path.insert(0, os.environ.get("ORQUESTA_REPO", "/repo"))
from orquesta import machines


def table(name, data):
    rows = []
    for st, evs in data.items():
        cells = ",\n      ".join('%s |-> "%s"' % (e, s) for e, s in evs.items())
        key = "null" if st == "null" else st
        rows.append('  %s |-> [%s]' % (key if key != "null" else "null", cells if cells else 'none |-> "none"'))
    return "%s ==\n  [\n%s\n  ]\n" % (name, ",\n".join(rows))


print("----------------------------- MODULE Lifecycle -----------------------------")
print("(* The workflow and task status tables of orquesta/machines.py, transcribed cell by cell. *)")
print("(* A missing cell means: the event is ignored in that status.                             *)")
print("EXTENDS TLC")
print()
print(table("WfT", machines.WORKFLOW_STATE_MACHINE_DATA))
print(table("TkT", machines.TASK_STATE_MACHINE_DATA))
print('WfNext(st, ev) == IF st \\in DOMAIN WfT /\\ ev \\in DOMAIN WfT[st] THEN WfT[st][ev] ELSE st')
print('WfHasRow(st, ev) == st \\in DOMAIN WfT /\\ ev \\in DOMAIN WfT[st]')
print('TkNext(st, ev) == IF st \\in DOMAIN TkT /\\ ev \\in DOMAIN TkT[st] THEN TkT[st][ev] ELSE st')
print("=============================================================================")
