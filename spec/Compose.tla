------------------------------ MODULE Compose ------------------------------
(* C14: the composed execution graph.                                                        *)
(*  (a) RefGraph: what the graph of a definition must be (declarative);                       *)
(*  (b) the worklist algorithm of orquesta/composers/native.py as a TLA+ state machine         *)
(*      (queue of <<task, splits>>, split tracking, pruning, edge de-duplication);             *)
(*      TLC checks for every definition of a family that it terminates with exactly RefGraph;  *)
(*  (c) the relation between RefGraph and graphs observed from the real composer under         *)
(*      permutations of the declaration order and across serialize/deserialize (group check).  *)
EXTENDS RefGraph, Json, IOUtils

Defs == JsonDeserialize(IOEnv.DEFS_FILE)

(* ---------- (b) the composer's algorithm ------------------------------------------------------- *)
VARIABLES di, q, gnodes, gedges, gsplits, gretry, track, steps
vars == <<di, q, gnodes, gedges, gsplits, gretry, track, steps>>
D == Defs[di]

(* get_next_tasks: (target, condition, transition index), sorted by target name (stable) *)
NextTasksOf(d, t) ==
  LET nx == d.tasks[t].next
      all == FlattenSeq([i \in 1..Len(nx) |-> [j \in 1..Len(nx[i].do) |->
                 [dst |-> nx[i].do[j], when |-> nx[i].when, ti |-> i - 1]]])
      idx == SortSeq([p \in 1..Len(all) |-> p],
                     LAMBDA a, b : d.rank[all[a].dst] < d.rank[all[b].dst] \/ (all[a].dst = all[b].dst /\ a < b))
  IN [k \in 1..Len(idx) |-> all[idx[k]]]
StartTasks(d) == SortSeq(SetToSeq(Roots(d)), LAMBDA a, b : d.rank[a] < d.rank[b])
ToSetS(s) == {s[i] : i \in 1..Len(s)}

Init == /\ di \in 1..Len(Defs)
        /\ q = [i \in 1..Len(StartTasks(Defs[di])) |-> <<StartTasks(Defs[di])[i], << >> >>]
        /\ gnodes = {} /\ gedges = {} /\ gsplits = << >> /\ gretry = << >> /\ track = << >> /\ steps = 0

(* one iteration over the outbound transitions of task t (fold over NextTasksOf) *)
RECURSIVE Outbound(_, _, _, _, _)
Outbound(d, t, splits, k, acc) ==                   \* acc = [q, nodes, edges, retry, track]
  IF k > Len(NextTasksOf(d, t)) THEN acc
  ELSE LET nt == NextTasksOf(d, t)[k] IN
       IF nt.dst = "retry"
       THEN Outbound(d, t, splits, k + 1,
                     [acc EXCEPT !.retry = (t :> [on |-> TRUE, count |-> 3, delay |-> -1,
                                                  when |-> IF nt.when.k = "always" THEN [k |-> "completed", v |-> "", n |-> 0] ELSE nt.when]) @@ @])
       ELSE
       LET visit == nt.dst \notin acc.nodes \/ ~InCycle(d, nt.dst)
           ex    == IF nt.dst \in DOMAIN acc.track THEN acc.track[nt.dst] ELSE {}
           new   == ToSetS(splits)
           enq   == visit /\ (ex = {} \/ ~(new \subseteq ex))
           \* an entry is tracked even when its split set is empty (set() is falsy: it is then re-queued)
           tr1   == IF ~visit THEN acc.track
                    ELSE IF ex # {} THEN (IF new \subseteq ex THEN acc.track ELSE (nt.dst :> (ex \cup new)) @@ acc.track)
                    ELSE (nt.dst :> new) @@ acc.track
           q1    == IF enq THEN Append(acc.q, <<nt.dst, splits>>) ELSE acc.q
           same  == {e \in acc.edges : e.src = t /\ e.dst = nt.dst /\ e.when = nt.when /\ e.ref = nt.ti}
           key   == Cardinality({e \in acc.edges : e.src = t /\ e.dst = nt.dst})
           e1    == IF same # {} THEN acc.edges
                    ELSE acc.edges \cup {[src |-> t, dst |-> nt.dst, key |-> key, ref |-> nt.ti, when |-> nt.when]}
       IN Outbound(d, t, splits, k + 1,
                   [acc EXCEPT !.q = q1, !.track = tr1, !.edges = e1, !.nodes = @ \cup {nt.dst}])

Dequeue ==
  /\ q # << >>
  /\ LET d  == D
         t  == q[1][1]
         s0 == q[1][2]
         s1 == IF t \in TaskNames(d) /\ IsSplit(d, t) /\ ~InCycle(d, t) THEN Append(s0, t) ELSE s0
         r0 == IF t \in TaskNames(d) /\ d.tasks[t].retry.on THEN (t :> d.tasks[t].retry) @@ gretry ELSE gretry
         acc == IF t \in TaskNames(d)
                THEN Outbound(d, t, s1, 1, [q |-> Tail(q), nodes |-> gnodes \cup {t}, edges |-> gedges, retry |-> r0, track |-> track])
                ELSE [q |-> Tail(q), nodes |-> gnodes \cup {t}, edges |-> gedges, retry |-> r0, track |-> track]
     IN /\ q' = acc.q /\ gnodes' = acc.nodes /\ gedges' = acc.edges /\ gretry' = acc.retry /\ track' = acc.track
        /\ gsplits' = IF s1 # << >> THEN (t :> s1) @@ gsplits ELSE gsplits
        /\ steps' = steps + 1 /\ di' = di

Next == Dequeue
Spec == Init /\ [][Next]_vars /\ WF_vars(Next)

Terminated == q = << >>
GraphIsRef == Terminated =>
  /\ gnodes = RefNodes(D)
  /\ gedges = RefEdges(D)
  /\ \A t \in Reachable(D) : (t \in DOMAIN gretry) = RefRetry(D, t).on
  /\ \A t \in DOMAIN gretry : gretry[t] = RefRetry(D, t)
Bounded == steps <= 200                       \* the worklist terminates (every definition of the family)
Terminates == <>Terminated
=============================================================================
