SPECIFICATION Spec
CONSTANTS
  MaxPause = 0
  MaxCancel = 0
  MaxSteps = 12
  MaxRerun = 0
  Own = {"C01","C02","C03","C04","C07","C15","C18","C19"}
  KnownSigs = {"KF_C07_late_arrival_after_fire"}
  Deviations <- AsCode
INVARIANT NoViolation
VIEW View
CHECK_DEADLOCK FALSE
