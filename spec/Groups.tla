------------------------------- MODULE Groups -------------------------------
(* Relational properties: a group is a set of runs of the real conductor that the property    *)
(* relates (paused vs de-paused twin, all report orders of one scenario, live vs restored,     *)
(* rerun vs clean, hash seed A vs B, shorthand vs long form).  Each member carries the final   *)
(* observation `fin` written by the harness; the relations are evaluated here, by TLC.         *)
(*   fin = [wf, execd : task -> count, errs : set-like seq, out, hasout, pubs, rest, ...]      *)
(* A false relation prints <<"G", group id, clause>>.                                          *)
EXTENDS RefGraph, Json, IOUtils

Batch == JsonDeserialize(IOEnv.TRACE_FILE)

VARIABLES g

Cnt(f, t) == IF t \in DOMAIN f THEN f[t] ELSE 0
Members(G, role) == {i \in 1..Len(G.members) : G.members[i].role = role}
Fin(G, i) == G.members[i].fin

(* C09: the paused run R and its de-paused twin (R's own reports without the pause/resume) *)
(* The twin replays only the paused run's reports.  If the paused run failed, work that was held  *)
(* back may still be in flight in the twin (fail-fast); otherwise a twin that is not at rest has  *)
(* started work the paused run never ran (with-items window after a failed item) and the two     *)
(* are not comparable.                                                                         *)
Comparable(G, p, t) == Fin(G, t).rest \/ Fin(G, p).wf = "failed"
C09_same_status(G) ==
  \A p \in Members(G, "paused"), t \in Members(G, "twin") :
     Comparable(G, p, t) => Fin(G, p).wf = Fin(G, t).wf
C09_same_success(G) ==
  \A p \in Members(G, "paused"), t \in Members(G, "twin") :
     (Fin(G, p).wf = "succeeded" /\ Fin(G, t).wf = "succeeded") =>
        /\ Fin(G, p).execd = Fin(G, t).execd
        /\ ToSet(Fin(G, p).errs) = ToSet(Fin(G, t).errs)
        /\ Fin(G, p).out = Fin(G, t).out
C09_same_failure(G) ==
  \A p \in Members(G, "paused"), t \in Members(G, "twin") :
     (Fin(G, p).wf = "failed" /\ Fin(G, t).wf = "failed") =>
        /\ ToSet(Fin(G, p).errs) = ToSet(Fin(G, t).errs)
        /\ \A x \in DOMAIN Fin(G, p).execd : Fin(G, p).execd[x] <= Cnt(Fin(G, t).execd, x)

(* C08: all report orders of one scenario (acyclic definition, outcome fixed per task) *)
(* Where a decision reads a variable written by concurrent branches, which branch runs depends on  *)
(* arrival order by C06's own rule; such scenarios are outside this relation.                     *)
C08_status(G) == ~ControlTainted(G.def) => \A i, j \in 1..Len(G.members) : Fin(G, i).wf = Fin(G, j).wf
C08_executed(G) ==
  ~ControlTainted(G.def) =>
  \A i, j \in 1..Len(G.members) :
     (Fin(G, i).wf = "succeeded" /\ Fin(G, j).wf = "succeeded") => Fin(G, i).execd = Fin(G, j).execd
C08_published(G) ==
  (~ControlTainted(G.def) /\ Tainted(G.def) = {}) =>
  \A i, j \in 1..Len(G.members) :
     (Fin(G, i).wf = "succeeded" /\ Fin(G, j).wf = "succeeded") => Fin(G, i).pubs = Fin(G, j).pubs
C08_output(G) ==
  LET d == G.def
      stable == IF ControlTainted(d) THEN {}
                ELSE {k \in 1..Len(d.output) : \A v \in DepVar(d.output[k][2]) : v \notin Tainted(d)}
  IN \A i, j \in 1..Len(G.members) :
       (Fin(G, i).wf = "succeeded" /\ Fin(G, j).wf = "succeeded") =>
          \A k \in stable :
             LET o == d.output[k][1] IN
             /\ (o \in DOMAIN Fin(G, i).out) = (o \in DOMAIN Fin(G, j).out)
             /\ o \in DOMAIN Fin(G, i).out => Fin(G, i).out[o] = Fin(G, j).out[o]

(* C05: live (never persisted) vs restored (persisted after the calls in some subset) *)
C05_same_steps(G) ==
  \A a \in Members(G, "live"), b \in Members(G, "restored") : Fin(G, a).trail = Fin(G, b).trail
C05_same_final(G) ==
  \A a \in Members(G, "live"), b \in Members(G, "restored") : Fin(G, a).final = Fin(G, b).final
C05_idempotent(G) ==
  \A b \in Members(G, "restored") : Fin(G, b).reser = TRUE

(* S2 at group level: a join: N with more inbound tasks than N whose number of executions      *)
(* differs between members (late arrival after the join fired)                                *)
KF_C07_late_arrival_after_fire(G) ==
  \E j \in TaskNames(G.def) :
     /\ IsJoin(G.def, j) /\ Need(G.def, j) < Cardinality(Inbound(G.def, j))
     /\ \E a, b \in 1..Len(G.members) : Cnt(Fin(G, a).execd, j) # Cnt(Fin(G, b).execd, j)

(* S1 at group level: an output variable with a single causal chain of publishers (a newer     *)
(* publish downstream of an older one) whose value nevertheless differs between report orders   *)
KF_C06_inherited_delta_after_newer(G) ==
  LET d == G.def IN
  \E k \in 1..Len(d.output) : \E v \in DepVar(d.output[k][2]) :
     /\ ~ConcurrentlyWritten(d, v)
     /\ \E s1, s2 \in PubSites(d, v) : s1 # s2 /\ Precedes(d, s1, s2)
     /\ \E a, b \in 1..Len(G.members) :
          LET o == d.output[k][1] IN
          /\ Fin(G, a).wf = "succeeded" /\ Fin(G, b).wf = "succeeded"
          /\ o \in DOMAIN Fin(G, a).out /\ o \in DOMAIN Fin(G, b).out /\ Fin(G, a).out[o] # Fin(G, b).out[o]

(* S2 for a paused run and its twin: more inbound branches than the join: N needs have run, so  *)
(* how many of them are merged before the join starts depends on timing (the pause delays it)   *)
KF_C07_late_arrival_pause(G) ==
  \E j \in TaskNames(G.def) :
     /\ IsJoin(G.def, j) /\ Need(G.def, j) < Cardinality(Inbound(G.def, j))
     /\ \E m \in 1..Len(G.members) :
          Cardinality({p \in Inbound(G.def, j) : Cnt(Fin(G, m).execd, p) > 0}) > Need(G.def, j)

(* S19: the rerun request leaves a failed execution (or a fail command) of the first run behind; *)
(* the re-executed tasks succeed and the workflow ends succeeded where the clean run fails      *)
KF_C17_partial_rerun_succeeds(G) ==
  /\ G.kind = "rerun"
  /\ \A a \in Members(G, "rerun") : Fin(G, a).partial
  /\ \/ /\ \A a \in Members(G, "rerun") : Fin(G, a).wf = "succeeded"
        /\ \A b \in Members(G, "clean") : Fin(G, b).wf = "failed"
     \* ... or it ends failed again and what the standing failure published stands as well
     \/ \A a \in Members(G, "rerun") : Fin(G, a).wf = "failed"

(* S14: executions of the first run that the rerun supersedes (some task has run more often than *)
(* any clean run needs) keep their side effects: published contexts, terminal flags, staged joins  *)
KF_C17_first_run_side_effects(G) ==
  /\ G.kind = "rerun"
  /\ \E a \in Members(G, "rerun") : \E t \in DOMAIN Fin(G, a).execd :
        \A b \in Members(G, "clean") : Fin(G, a).execd[t] > Cnt(Fin(G, b).execd, t)
  \* the direct successors of the superseded executions are reset by the rerun; what is left behind
  \* lies deeper (get_task_sequence is one level deep) or is staging
  \* ... and something of them is demonstrably left: a terminal record deeper than a direct successor
  \* (stale_min_depth modulo 1000 in 2..98) or a record started from staging they left behind (+1000)
  /\ \A a \in Members(G, "rerun") :
        LET sd == Fin(G, a).stale_min_depth IN
        /\ (sd % 1000) >= 2
        /\ \/ (sd % 1000) < 99 \/ sd >= 1000
           \* ... or a context of the superseded execution is still recorded (more copies of it than any clean run has)
           \/ \E i \in 1..Len(Fin(G, a).pubs) : \A b \in Members(G, "clean") :
                 Cardinality({j \in 1..Len(Fin(G, a).pubs) : Fin(G, a).pubs[j] = Fin(G, a).pubs[i]})
                    > Cardinality({j \in 1..Len(Fin(G, b).pubs) : Fin(G, b).pubs[j] = Fin(G, a).pubs[i]})
           \* ... or a join it had staged, partially satisfied and now stale, fails the rerun as unreachable
           \/ /\ Fin(G, a).wf = "failed"
              /\ \E i \in 1..Len(Fin(G, a).errs) :
                    /\ Fin(G, a).errs[i].cls = "unreachable_join"
                    /\ \A b \in Members(G, "clean") : \A j \in 1..Len(Fin(G, b).errs) : Fin(G, b).errs[j] # Fin(G, a).errs[i]

(* S20: the value of an output variable that concurrent branches write is taken from the terminal record *)
(* that was created (started) last, not from the one that completed last; a pause delays the start of a   *)
(* successor, so the paused run and its twin - same reports, both succeeded, same executions and errors -  *)
(* differ in exactly such outputs                                                                          *)
KF_C09_concurrent_output_by_start_order(G) ==
  /\ G.kind = "pause" /\ ~ControlTainted(G.def)
  /\ \A p \in Members(G, "paused"), t \in Members(G, "twin") :
        /\ Fin(G, p).wf = "succeeded" /\ Fin(G, t).wf = "succeeded"
        /\ Fin(G, p).execd = Fin(G, t).execd /\ ToSet(Fin(G, p).errs) = ToSet(Fin(G, t).errs)
        /\ DOMAIN Fin(G, p).out = DOMAIN Fin(G, t).out
        /\ \A k \in 1..Len(G.def.output) :
              LET o == G.def.output[k][1] IN
              (o \in DOMAIN Fin(G, p).out /\ Fin(G, p).out[o] # Fin(G, t).out[o]) =>
                 DepVar(G.def.output[k][2]) \cap Tainted(G.def) # {}

(* S20 after a rerun: the re-executed task's record is created last, so for an output variable written by  *)
(* concurrent branches the rerun and the clean run - same status - may disagree on exactly such outputs   *)
KF_C17_concurrent_output_by_start_order(G) ==
  /\ G.kind = "rerun" /\ ~ControlTainted(G.def)
  /\ \A a \in Members(G, "rerun") : \E b \in Members(G, "clean") :
        /\ Fin(G, a).wf = Fin(G, b).wf
        /\ DOMAIN Fin(G, a).out = DOMAIN Fin(G, b).out
        /\ \A k \in 1..Len(G.def.output) :
              LET o == G.def.output[k][1] IN
              (o \in DOMAIN Fin(G, a).out /\ Fin(G, a).out[o] # Fin(G, b).out[o]) =>
                 DepVar(G.def.output[k][2]) \cap Tainted(G.def) # {}

GroupSignatures(G) ==
  (IF G.kind = "inspect" /\ G.expect.cat = "context" /\ G.expect.pos \in {"rwhen", "rcount", "rdelay"}
   THEN {"KF_C15_retry_context_unchecked"} ELSE {}) \cup
  (IF G.kind = "order" /\ KF_C07_late_arrival_after_fire(G) THEN {"KF_C07_late_arrival_after_fire"} ELSE {}) \cup
  (IF G.kind = "pause" /\ KF_C07_late_arrival_pause(G) THEN {"KF_C07_late_arrival_after_fire"} ELSE {}) \cup
  (IF KF_C09_concurrent_output_by_start_order(G) \/ KF_C17_concurrent_output_by_start_order(G)
   THEN {"KF_C09_concurrent_output_by_start_order"} ELSE {}) \cup
  (IF KF_C17_first_run_side_effects(G) THEN {"KF_C17_first_run_side_effects"} ELSE {}) \cup
  (IF KF_C17_partial_rerun_succeeds(G) THEN {"KF_C17_partial_rerun_succeeds"} ELSE {}) \cup
  (IF G.kind = "rerun" /\ KF_C07_late_arrival_pause(G) THEN {"KF_C07_late_arrival_after_fire"} ELSE {}) \cup
  (IF G.kind = "order" /\ KF_C06_inherited_delta_after_newer(G) THEN {"KF_C06_inherited_delta_after_newer"} ELSE {})

(* C17: a rerun whose re-executed actions all succeed ends like some clean run (same definition,  *)
(* the outcome assignment in which they had succeeded the first time; any report order)          *)
C17_converge(G) ==
  \A a \in Members(G, "rerun") :
     \E b \in Members(G, "clean") : Fin(G, a).wf = Fin(G, b).wf /\ Fin(G, a).out = Fin(G, b).out

(* C14: graphs observed from the real composer (one member per permutation of the declaration   *)
(* order) against the reference graph of the definition                                         *)
SeqSet(s) == {s[i] : i \in 1..Len(s)}
C14_nodes(G) == \A m \in 1..Len(G.members) : {n.id : n \in SeqSet(Fin(G, m).nodes)} = RefNodes(G.def)
C14_edges(G) == \A m \in 1..Len(G.members) :
                  /\ SeqSet(Fin(G, m).edges) = RefEdges(G.def)
                  /\ Len(Fin(G, m).edges) = Cardinality(RefEdges(G.def))
C14_attrs(G) == \A m \in 1..Len(G.members) : \A n \in SeqSet(Fin(G, m).nodes) :
                  /\ n.barrier = RefBarrier(G.def, n.id)
                  /\ n.retry = RefRetry(G.def, n.id)
C14_roots(G) == \A m \in 1..Len(G.members) : SeqSet(Fin(G, m).roots) = RefRoots(G.def)
\* (the members are the graphs composed under permutations of the declaration order and, role "conducted", the
\* graph a conductor holds after conducting a history: conducting leaves the composed graph alone)
C14_order_independent(G) == \A a, b \in 1..Len(G.members) : Fin(G, a).digest = Fin(G, b).digest
C14_roundtrip(G) == \A m \in 1..Len(G.members) :
                      /\ Fin(G, m).digest = Fin(G, m).digest_rt
                      /\ Fin(G, m).trans = Fin(G, m).trans_rt

(* C19: the same history replayed in processes with different hash seeds *)
C19_same(G) == \A a, b \in 1..Len(G.members) :
                 /\ Fin(G, a).graph = Fin(G, b).graph
                 /\ Fin(G, a).inspect = Fin(G, b).inspect
                 /\ Fin(G, a).trail = Fin(G, b).trail
                 /\ Fin(G, a).errors = Fin(G, b).errors
                 /\ Fin(G, a).output = Fin(G, b).output

(* C20: shorthand and long form denote the same *)
C20_same(G) ==
  \A a \in Members(G, "short"), b \in Members(G, "long") :
     /\ Fin(G, a).graph = Fin(G, b).graph /\ Fin(G, a).inspect = Fin(G, b).inspect
     /\ Fin(G, a).trail = Fin(G, b).trail /\ Fin(G, a).ctxs = Fin(G, b).ctxs
     /\ Fin(G, a).output = Fin(G, b).output /\ Fin(G, a).status = Fin(G, b).status
     /\ Fin(G, a).errors = Fin(G, b).errors
C20_denote(G) ==
  G.case.kind = "params" =>
     \A a \in 1..Len(G.members) : Fin(G, a).parsed = G.case.denote

(* C16: values through the data path *)
C16_preserved(G) ==
  \A m \in 1..Len(G.members) :
     /\ Fin(G, m).status = "succeeded"
     /\ \A i \in 1..Len(Fin(G, m).stages) : Fin(G, m).stages[i][2] = Fin(G, m).expect
C16_pure(G) ==
  \A m \in 1..Len(G.members) :
     /\ \A i \in 1..Len(Fin(G, m).pure) :
          /\ Fin(G, m).pure[i][1] = "evaluate_ctx_unchanged" => Fin(G, m).pure[i][2] = "same"
          \* a publish of one transition does not change the context its sibling transitions are evaluated against
          /\ Fin(G, m).pure[i][1] = "sibling_sees_d" => Fin(G, m).pure[i][2] = "dict:{keep=int:1}"
     \* the stored initial context is the same after every event
     /\ \A i, j \in 1..Len(Fin(G, m).ctx0) : Fin(G, m).ctx0[i] = Fin(G, m).ctx0[j]
(* recorded context snapshots only grow: after every event the earlier list is a prefix of the later *)
SnapshotsStable(G) ==
  \A m \in 1..Len(G.members) : \A i \in 1..(Len(Fin(G, m).snaps) - 1) :
     IsPrefix(Fin(G, m).snaps[i], Fin(G, m).snaps[i + 1])
C16_hidden(G) ==
  \A m \in 1..Len(G.members) :
     /\ \A i \in 1..Len(Fin(G, m).hidden) : Fin(G, m).hidden[i][2] = << >>
     /\ \A i \in 1..Len(Fin(G, m).priv) : Fin(G, m).priv[i][3] = "rejected"

(* C19 on the data-path host (nested values, publishes over publishes): the query is pure *)
C19_query_idem(G) ==
  \A m \in 1..Len(G.members) : \A i \in 1..Len(Fin(G, m).pure) :
     Fin(G, m).pure[i][1] = "query_idem" => Fin(G, m).pure[i][2] = "same"

(* C15: a single-fault mutant must be reported in the expected category at the expected position *)
C15_reported(G) ==
  \A m \in 1..Len(G.members) :
     \E i \in 1..Len(Fin(G, m).entries) :
        LET e == Fin(G, m).entries[i] IN
        /\ e.cat = G.expect.cat
        /\ e.task = G.expect.task \/ G.expect.task = "none"
        /\ e.pos = G.expect.pos
        /\ e.ti = G.expect.ti \/ G.expect.ti = -1 \/ e.ti = -1

Rel(G) ==
  LET FG(n, ok) == IF ok THEN {} ELSE {n} IN
  CASE G.kind = "pause" -> FG("C09_same_status", C09_same_status(G)) \cup FG("C09_same_success", C09_same_success(G))
                           \cup FG("C09_same_failure", C09_same_failure(G))
    [] G.kind = "order" -> FG("C08_status", C08_status(G)) \cup FG("C08_executed", C08_executed(G))
                           \cup FG("C08_published", C08_published(G)) \cup FG("C08_output", C08_output(G))
    [] G.kind = "persist" -> FG("C05_same_steps", C05_same_steps(G)) \cup FG("C05_same_final", C05_same_final(G))
                           \cup FG("C05_idempotent", C05_idempotent(G))
    [] G.kind = "graph" -> FG("C14_nodes", C14_nodes(G)) \cup FG("C14_edges", C14_edges(G)) \cup FG("C14_attrs", C14_attrs(G))
                           \cup FG("C14_roots", C14_roots(G)) \cup FG("C14_order_independent", C14_order_independent(G))
                           \cup FG("C14_roundtrip", C14_roundtrip(G))
    [] G.kind = "inspect" -> FG("C15_reported", C15_reported(G))
    [] G.kind = "seed" -> FG("C19_same", C19_same(G))
    [] G.kind = "shorthand" -> FG("C20_same", C20_same(G)) \cup FG("C20_denote", C20_denote(G))
    [] G.kind = "datapath" -> FG("C16_preserved", C16_preserved(G)) \cup FG("C16_pure", C16_pure(G) /\ SnapshotsStable(G))
                              \cup FG("C16_hidden", C16_hidden(G)) \cup FG("C19_query_idem", C19_query_idem(G))
    [] G.kind = "snapshots" -> FG("C18_snapshots", SnapshotsStable(G))
    [] G.kind = "rerun" -> FG("C17_converge", C17_converge(G))
    [] OTHER -> {"unknown_group_kind"}

(* 16 interleaved chains so that TLC's workers share the groups *)
Stride == 16
Init == g \in {<<k, 0>> : k \in 0..(Stride - 1)}
Next == LET i == g[1] + Stride * g[2] + 1 IN
        /\ i <= Len(Batch)
        /\ g' = <<g[1], g[2] + 1>>
        /\ \A c \in Rel(Batch[i]) : PrintT(<<"G", Batch[i].gid, c>>)
        /\ Rel(Batch[i]) # {} => \A s \in GroupSignatures(Batch[i]) : PrintT(<<"GK", Batch[i].gid, s>>)
Spec == Init /\ [][Next]_g
=============================================================================
