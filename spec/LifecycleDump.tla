--------------------------- MODULE LifecycleDump ---------------------------
(* Prints the two status tables of the specification as JSON so that the harness can compare   *)
(* them cell by cell with orquesta/machines.py of the tree under test.                         *)
EXTENDS Lifecycle, Json, TLC
VARIABLE x
Init == x = 0
Next == UNCHANGED x
Spec == Init /\ [][Next]_x
Emit == PrintT(<<"LC", ToJson([wf |-> WfT, tk |-> TkT])>>)
=============================================================================
