------------------------------ MODULE DataPath ------------------------------
(* C16: the data path.  A value is injected as workflow input or as an action result and       *)
(* travels  input -> context -> vars -> action input -> result -> publish -> (join) -> output,  *)
(* referenced at every hop by ONE expression in form f (4 YAQL forms, 3 Jinja forms), with a    *)
(* persist/restore at any subset (here: up to 2) of the 9 points between API calls.            *)
(* TLC enumerates the paths; the harness runs each with drawn JSON values on the real code and  *)
(* logs every stage's value type-tagged; Groups.tla evaluates                                   *)
(*   Preserved : every stage value = the injected value                                          *)
(*   Pure      : evaluating never changes the context; the stored initial context never changes   *)
(*   Hidden    : no "__" key in contexts offered / stored / output; private names are rejected    *)
EXTENDS Naturals, FiniteSets, TLC, Json
Injects == {"input", "result"}
Forms   == 0..6                         \* 0..3 YAQL: ctx(x) ctx('x') ctx("x") ctx().x ; 4..6 Jinja
Points  == 0..8
PersistSets == {S \in SUBSET Points : Cardinality(S) <= 2}
Paths == {[inject |-> i, form |-> f, persist |-> S] : i \in Injects, f \in Forms, S \in PersistSets}
VARIABLE p
Init == p \in Paths
Next == UNCHANGED p
Spec == Init /\ [][Next]_p
Emit == PrintT(<<"DP", ToJson([inject |-> p.inject, form |-> p.form,
                               persist |-> [k \in 1..Cardinality(p.persist) |->
                                              CHOOSE x \in p.persist : Cardinality({y \in p.persist : y < x}) = k - 1]])>>)
=============================================================================
