SPECIFICATION Spec
CONSTANT Deviations <- AsCode
CHECK_DEADLOCK FALSE
