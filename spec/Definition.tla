---------------------------- MODULE Definition ----------------------------
(* Abstract syntax of a workflow definition and the graph derived from it.                  *)
(* A definition `d` is data (DESIGN.md App. B), read from JSON or written as a literal:     *)
(*   d.tasks[t] = [join, items, conc, delay, retry : [on,count,when,delay],                 *)
(*                 next : Seq([when : Cond, pub : Seq(<<var, Val>>), do : Seq(name)])]      *)
(*   Cond = [k, v, n]  k \in {always, succeeded, failed, completed, reseq, lt, ge, bad}    *)
(*   Val  = [k, v, n]  k \in {c, res, ctx, inc, item, bad}                                 *)
(*   d.rank : name -> Nat   (lexicographic rank of task and command names; TLC cannot       *)
(*                           compare strings, the code sorts transitions by target name)    *)
(* Values are type-tagged integer sequences: <<0,k>> integer, <<1,...>> list, <<2>> null.   *)
EXTENDS Naturals, Integers, Sequences, FiniteSets, TLC, SequencesExt, FiniteSetsExt

Cmds      == {"continue", "fail", "noop", "retry"}
Completed == {"succeeded", "failed", "timeout", "abandoned", "canceled"}
Abended   == {"failed", "timeout", "abandoned"}
ActiveSt  == {"requested", "scheduled", "delayed", "running", "resuming", "pausing", "canceling"}
RunningSt == {"requested", "scheduled", "delayed", "running", "resuming", "retrying"}
DormantSt == {"pending", "paused"}
StartingSt == {"requested", "scheduled", "delayed", "running", "pending"}

TaskNames(d) == DOMAIN d.tasks
IsCmd(x)     == x \in Cmds
IsJoin(d, x) == x \in TaskNames(d) /\ d.tasks[x].join # 0
HasItems(d, x) == x \in TaskNames(d) /\ d.tasks[x].items >= 0
HasRetry(d, x) == x \in TaskNames(d) /\ d.tasks[x].retry.on

IntV(k)  == <<0, k>>
IsIntV(v) == Len(v) = 2 /\ v[1] = 0

(* --- transitions of a task, as the composer lays them out -------------------------------- *)
(* One raw entry per (transition index, target) in declaration order; `retry` targets become  *)
(* a retry policy, not an edge.                                                              *)
RawEdges(d, t) ==
  IF t \notin TaskNames(d) THEN << >>
  ELSE LET nx == d.tasks[t].next
           all == FlattenSeq([i \in 1..Len(nx) |->
                     [j \in 1..Len(nx[i].do) |->
                        [src |-> t, dst |-> nx[i].do[j], ti |-> i - 1,
                         when |-> nx[i].when, pub |-> nx[i].pub]]])
       IN SelectSeq(all, LAMBDA e : e.dst # "retry")

(* multigraph key = number of earlier edges of the same (source, target) pair *)
KeyedEdges(d, t) ==
  LET raw == RawEdges(d, t)
  IN [p \in 1..Len(raw) |->
        [src |-> raw[p].src, dst |-> raw[p].dst, ti |-> raw[p].ti, when |-> raw[p].when,
         pub |-> raw[p].pub,
         key |-> Cardinality({q \in 1..(p - 1) : raw[q].dst = raw[p].dst})]]

(* evaluation order of the conductor: (target name, key)  -- conducting.py:960, graphing.py:172 *)
Edges(d, t) ==
  SortSeq(KeyedEdges(d, t),
          LAMBDA a, b : d.rank[a.dst] < d.rank[b.dst] \/ (a.dst = b.dst /\ a.key < b.key))

Tid(x, key)  == x \o "__t" \o ToString(key)         \* "<target>__t<key>"
Rid(t, r)    == t \o "__r" \o ToString(r)           \* "<task>__r<route>"

RetryCmd(d, t) ==                                   \* a `retry` target turns into a policy
  t \in TaskNames(d) /\ \E i \in 1..Len(d.tasks[t].next) :
                          \E j \in 1..Len(d.tasks[t].next[i].do) : d.tasks[t].next[i].do[j] = "retry"

Inbound(d, x) == {t \in TaskNames(d) : \E i \in 1..Len(Edges(d, t)) : Edges(d, t)[i].dst = x}
NPrev(d, x)   == LET S == {<<t, i>> \in TaskNames(d) \X (1..8) : i <= Len(RawEdges(d, t)) /\ RawEdges(d, t)[i].dst = x}
                 IN Cardinality(S)
(* join: 0 none, -1 all, -2 a declared "join: 0" (a barrier whose requirement falls back to 1), n *)
Need(d, x)    == IF d.tasks[x].join = -1 THEN Cardinality(Inbound(d, x))
                 ELSE IF d.tasks[x].join = -2 THEN 1 ELSE d.tasks[x].join
Roots(d)      == {t \in TaskNames(d) : Inbound(d, t) = {}}

Succ(d, t)    == {Edges(d, t)[i].dst : i \in 1..Len(Edges(d, t))} \cap TaskNames(d)
RECURSIVE ReachFrom(_, _, _)
ReachFrom(d, front, seen) ==
  IF front \subseteq seen THEN seen
  ELSE ReachFrom(d, UNION {Succ(d, t) : t \in front \ seen}, seen \cup front)
InCycle(d, t) == t \in TaskNames(d) /\ t \in ReachFrom(d, Succ(d, t), {})
IsSplit(d, x) == ~IsJoin(d, x) /\ NPrev(d, x) > 1            \* engine commands included
Reachable(d)  == ReachFrom(d, Roots(d), {})

(* --- static data-flow facts ------------------------------------------------------------- *)
PubSites(d, v) == {<<t, i>> \in TaskNames(d) \X (1..4) :
                     i <= Len(d.tasks[t].next) /\ \E k \in 1..Len(d.tasks[t].next[i].pub) : d.tasks[t].next[i].pub[k][1] = v}
TargetsOf(d, site) == {d.tasks[site[1]].next[site[2]].do[j] : j \in 1..Len(d.tasks[site[1]].next[site[2]].do)} \cap TaskNames(d)
(* site s1 precedes s2: the publisher of s2 is at or below a target of s1's transition *)
Precedes(d, s1, s2) == s2[1] \in ReachFrom(d, TargetsOf(d, s1), {})
(* v may be written by two causally unordered branches (static over-approximation) *)
ConcurrentlyWritten(d, v) ==
  \E s1, s2 \in PubSites(d, v) : s1 # s2 /\ ~Precedes(d, s1, s2) /\ ~Precedes(d, s2, s1)
DepVar(e) == IF e.k \in {"ctx", "inc", "lt", "ge"} THEN {e.v} ELSE {}
AllVars(d) == {d.vars[i][1] : i \in 1..Len(d.vars)} \cup
              UNION {UNION {{d.tasks[t].next[i].pub[k][1] : k \in 1..Len(d.tasks[t].next[i].pub)} :
                              i \in 1..Len(d.tasks[t].next)} : t \in TaskNames(d)}
(* variables whose value may legitimately depend on arrival order: written by concurrent branches, *)
(* or published from an expression over such a variable (closure)                                *)
RECURSIVE TaintClosure(_, _)
TaintClosure(d, T) ==
  LET more == {w \in AllVars(d) : \E t \in TaskNames(d) : \E i \in 1..Len(d.tasks[t].next) :
                  \E k \in 1..Len(d.tasks[t].next[i].pub) :
                     d.tasks[t].next[i].pub[k][1] = w /\ DepVar(d.tasks[t].next[i].pub[k][2]) \cap T # {}}
  IN IF more \subseteq T THEN T ELSE TaintClosure(d, T \cup more)
Tainted(d) == TaintClosure(d, {v \in AllVars(d) : ConcurrentlyWritten(d, v)})
(* a transition condition (or retry condition) reads an order-sensitive variable *)
ControlTainted(d) == \E t \in TaskNames(d) : \E i \in 1..Len(d.tasks[t].next) :
                        DepVar(d.tasks[t].next[i].when) \cap Tainted(d) # {}

(* --- denotation of the abstract expression language ------------------------------------- *)
EvalCond(c, st, res, ctx) ==                         \* "T" | "F" | "E"
  LET b(x) == IF x THEN "T" ELSE "F" IN
  CASE c.k = "always"    -> "T"
    [] c.k = "succeeded" -> b(st = "succeeded")
    [] c.k = "failed"    -> b(st = "failed")
    [] c.k = "completed" -> b(st \in Completed)
    [] c.k = "reseq"     -> b(res = IntV(c.n))
    [] c.k = "lt"        -> IF c.v \in DOMAIN ctx /\ IsIntV(ctx[c.v]) THEN b(ctx[c.v][2] < c.n) ELSE "E"
    [] c.k = "ge"        -> IF c.v \in DOMAIN ctx /\ IsIntV(ctx[c.v]) THEN b(ctx[c.v][2] >= c.n) ELSE "E"
    [] OTHER             -> "E"

EvalVal(e, res, ctx) ==                              \* value, or <<-1>> for an evaluation error
  CASE e.k = "c"   -> IntV(e.n)
    [] e.k = "res" -> res
    [] e.k = "ctx" -> IF e.v \in DOMAIN ctx THEN ctx[e.v] ELSE <<-1>>
    [] e.k = "inc" -> IF e.v \in DOMAIN ctx /\ IsIntV(ctx[e.v]) THEN IntV(ctx[e.v][2] + 1) ELSE <<-1>>
    [] OTHER       -> <<-1>>

RECURSIVE PubRoll(_, _, _, _)
PubRoll(pub, i, res, ctx) ==                         \* rolling publish (models.py finalize_context)
  IF i > Len(pub) THEN [ok |-> TRUE, ctx |-> ctx, new |-> << >>]
  ELSE LET v == EvalVal(pub[i][2], res, ctx) IN
       IF v = <<-1>>
       THEN \* the failing entry is skipped, the remaining ones are still rendered (and all errors logged)
            LET rest == PubRoll(pub, i + 1, res, ctx)
            IN [ok |-> FALSE, ctx |-> rest.ctx, new |-> rest.new]
       ELSE LET rest == PubRoll(pub, i + 1, res, (pub[i][1] :> v) @@ ctx)
            IN [ok |-> rest.ok, ctx |-> rest.ctx, new |-> rest.new @@ (pub[i][1] :> v)]


=============================================================================
