------------------------------- MODULE Params -------------------------------
(* C20: the documented shorthands and what they denote.                                       *)
(* The value classes of the inline  name=value  notation and their representatives come from   *)
(* a corpus (harness/shorthand.py writes it as JSON: class -> list of [text, denotation]);      *)
(* Denote(v) is the long-form value a representative stands for (type-tagged string).           *)
(* TLC enumerates the cases: parameter lists (1..MaxLen values, each delimiter) at both          *)
(* positions (action, publish), `do` as comma string / list, `with` as string / mapping, and     *)
(* an omitted `do`; each case is printed with its denotation for the harness to build the        *)
(* shorthand/longhand twins.  The twins' observations are compared in spec/Groups.tla            *)
(* (C20_same, C20_denote).                                                                      *)
EXTENDS Naturals, Sequences, FiniteSets, TLC, Json, IOUtils

Corpus == JsonDeserialize(IOEnv.CORPUS_FILE)          \* [class |-> <<[text, value], ...>>]
CONSTANTS MaxLen
Classes == DOMAIN Corpus
\* every representative on its own; the first three of each class in longer lists
AllValues == {<<c, i>> \in Classes \X (1..8) : i <= Len(Corpus[c])}
Values  == {<<c, i>> \in AllValues : i <= 3}
Denote(v) == Corpus[v[1]][v[2]].value
Delims == {"space", "comma", "semicolon"}

ParamLists == [1..1 -> AllValues] \cup UNION {[1..n -> Values] : n \in 2..MaxLen}

Cases ==
  {[kind |-> "params", pos |-> p, delim |-> dl, vals |-> vs, denote |-> [i \in 1..Len(vs) |-> Denote(vs[i])]] :
      p \in {"action", "publish"}, dl \in Delims, vs \in ParamLists}
  \cup {[kind |-> "do", pos |-> v, delim |-> "none", vals |-> << >>, denote |-> << >>] :
          v \in {"comma_space", "comma", "single"}}
  \cup {[kind |-> "with", pos |-> v, delim |-> "none", vals |-> << >>, denote |-> << >>] :
          v \in {"expr", "x_in", "xy_in"}}
  \cup {[kind |-> "nodo", pos |-> "none", delim |-> "none", vals |-> << >>, denote |-> << >>]}

VARIABLE c
Init == c \in Cases
Next == UNCHANGED c
Spec == Init /\ [][Next]_c
Emit == PrintT(<<"P", ToJson(c)>>)
=============================================================================
