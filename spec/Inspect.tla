------------------------------ MODULE Inspect ------------------------------
(* C15 (completeness half): the faults inspection may not accept silently.                    *)
(* For every definition of a family TLC enumerates all single-fault mutants                   *)
(*   undefined   : a reachable transition target renamed to a task that does not exist        *)
(*   reserved    : a task renamed to an engine command name                                   *)
(*   nostart     : every start task given an inbound transition (closed cycle)                *)
(*   grammar     : an expression-bearing position holding an expression with invalid grammar  *)
(*   unassigned  : a position referring, in a documented form, to a variable nothing assigns  *)
(*   selfref     : a vars / publish / output entry reading the very name it assigns, which      *)
(*                 nothing assigns before it (the entry's own name is not yet in scope)        *)
(* and prints each with the report it must produce:  MustReport = [cat, task, pos, ti].        *)
(* The harness applies the mutant to the concrete definition, runs the real inspect() and      *)
(* hands the observed entries back (spec/Groups.tla, kind "inspect", clause C15_reported).     *)
EXTENDS Definition, Json, IOUtils

Defs == JsonDeserialize(IOEnv.DEFS_FILE)
VARIABLES di, f
D == Defs[di]

TaskPositions(d, t) ==
  {"action", "input", "delay"} \cup (IF HasItems(d, t) THEN {"items", "conc"} ELSE {})
  \cup (IF HasRetry(d, t) THEN {"rwhen", "rcount", "rdelay"} ELSE {})
Forms == 0..3

Faults(d) ==
  {[kind |-> "undefined", task |-> t, pos |-> "do", ti |-> i - 1, k |-> j, form |-> 0] :
      <<t, i, j>> \in {x \in Reachable(d) \X (1..4) \X (1..3) :
                         x[2] <= Len(d.tasks[x[1]].next) /\ x[3] <= Len(d.tasks[x[1]].next[x[2]].do)
                         /\ d.tasks[x[1]].next[x[2]].do[x[3]] \in TaskNames(d)}}
  \cup {[kind |-> "reserved", task |-> t, pos |-> c, ti |-> -1, k |-> 0, form |-> 0] :
          <<t, c>> \in TaskNames(d) \X {"noop", "fail", "continue", "retry"}}
  \cup {[kind |-> "nostart", task |-> "none", pos |-> "tasks", ti |-> -1, k |-> 0, form |-> 0]}
  \cup {[kind |-> kd, task |-> t, pos |-> p, ti |-> -1, k |-> 0, form |-> fm] :
          <<kd, t, p, fm>> \in {x \in {"grammar", "unassigned"} \X Reachable(d) \X
                                      {"action", "input", "delay", "items", "conc", "rwhen", "rcount", "rdelay"} \X Forms :
                                  x[3] \in TaskPositions(d, x[2]) /\ (x[1] = "unassigned" \/ x[4] = 0)}}
  \cup {[kind |-> kd, task |-> t, pos |-> p, ti |-> i - 1, k |-> 0, form |-> fm] :
          <<kd, t, p, i, fm>> \in {x \in {"grammar", "unassigned"} \X Reachable(d) \X {"when", "publish"} \X (1..4) \X Forms :
                                     x[4] <= Len(d.tasks[x[2]].next) /\ (x[1] = "unassigned" \/ x[5] = 0)}}
  \cup {[kind |-> kd, task |-> "none", pos |-> p, ti |-> -1, k |-> 0, form |-> fm] :
          <<kd, p, fm>> \in {x \in {"grammar", "unassigned"} \X {"vars", "output"} \X Forms : x[1] = "unassigned" \/ x[3] = 0}}
  \cup {[kind |-> "selfref", task |-> "none", pos |-> p, ti |-> -1, k |-> 0, form |-> fm] : <<p, fm>> \in {"vars", "output"} \X Forms}
  \cup {[kind |-> "selfref", task |-> t, pos |-> "publish", ti |-> i - 1, k |-> 0, form |-> fm] :
          <<t, i, fm>> \in {x \in Reachable(d) \X (1..4) \X Forms : x[2] <= Len(d.tasks[x[1]].next)}}

MustReport(d, ft) ==
  CASE ft.kind = "undefined"  -> [cat |-> "semantics", task |-> ft.task, pos |-> "do", ti |-> ft.ti]
    [] ft.kind = "reserved"   -> [cat |-> "semantics", task |-> ft.pos, pos |-> "task", ti |-> -1]
    [] ft.kind = "nostart"    -> [cat |-> "semantics", task |-> "none", pos |-> "tasks", ti |-> -1]
    [] ft.kind = "grammar"    -> [cat |-> "expressions", task |-> ft.task, pos |-> ft.pos, ti |-> ft.ti]
    [] ft.kind = "unassigned" -> [cat |-> "context", task |-> ft.task, pos |-> ft.pos, ti |-> ft.ti]
    [] ft.kind = "selfref"    -> [cat |-> "context", task |-> ft.task, pos |-> ft.pos, ti |-> ft.ti]

Init == di \in 1..Len(Defs) /\ f \in Faults(Defs[di])
Next == UNCHANGED <<di, f>>
Spec == Init /\ [][Next]_<<di, f>>
Emit == PrintT(<<"F", ToJson([def |-> D.name, fault |-> f, expect |-> MustReport(D, f)])>>)
=============================================================================
