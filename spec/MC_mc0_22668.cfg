SPECIFICATION Spec
CONSTANTS
  MaxPause = 0
  MaxCancel = 0
  MaxSteps = 14
  MaxRerun = 0
  Own = {"C01"}
  KnownSigs = {"KF_C06_inherited_delta_after_newer", "KF_C07_late_arrival_after_fire", "KF_C12_items_reset_by_late_arrival", "KF_C17_first_run_side_effects", "KF_C17_partial_rerun_succeeds"}
  Deviations <- AsCode
INVARIANT NoViolation
INVARIANT EmitLeaves
VIEW View
CHECK_DEADLOCK FALSE
