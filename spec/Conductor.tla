----------------------------- MODULE Conductor -----------------------------
(* Spec B: the workflow conductor, implementation-shaped (orquesta/conducting.py,            *)
(* orquesta/machines.py).  One operator per public API call, each a pure function from a     *)
(* state record S to a state record (plus a return tag).  S has exactly the fields of the     *)
(* projection harness/real.py:project, so conformance is equality of records.                 *)
(*                                                                                            *)
(*   S = [wf, seq, staged, ctxs, routes, ptr, errs, hasout, out, reruns]                      *)
(*   seq[i]    = [id, route, st, term, prev, next, ctxin, hasretry, rcount, rtally, rdelay]   *)
(*   staged[i] = [id, route, ready, ctxin, prev, hasitems, items, completed, rof, retry]      *)
(*   errs[i]   = [cls, task, route, tr]                                                       *)
(*                                                                                            *)
(* Line references are to orquesta/conducting.py unless stated.                               *)
EXTENDS Definition, Lifecycle

(* Named deviations: places where the code's behaviour is not the behaviour the properties ask   *)
(* for (open findings).  With the name in the set the operator does what the code does; without  *)
(* it, what the intended design would do.  Conformance and the as-code model checks use AsCode.   *)
CONSTANT Deviations
AsCode == {"S2_join_restaged_by_late_arrival", "S1_inherited_delta_reappended"}

(* ------------------------------------------------------------------------------------------ *)
(* small helpers                                                                              *)
SetAt(s, i, v) == [s EXCEPT ![i] = v]
Upd(f, k, v)   == (k :> v) @@ f
MaxOf(S)       == CHOOSE x \in S : \A y \in S : y <= x
MinOf(S)       == CHOOSE x \in S : \A y \in S : x <= y
RemoveFirstZero(s) ==                                             \* list.remove(0)
  LET z == {j \in 1..Len(s) : s[j] = 0} IN IF z = {} THEN s ELSE RemoveAt(s, MinOf(z))
Asc(S)         == SortSeq(SetToSeq(S), LAMBDA a, b : a < b)
(* Context index lists are merged by concatenation.  As the code does it, an index that a later   *)
(* arrival merely inherited is appended again after newer ones and wins the merge (finding S1).   *)
(* In the intended design an inherited delta is not re-applied after a delta whose publisher had *)
(* already seen it (S.cseen[i] = the indices the publisher of entry i ran with), and the targets *)
(* of one transition share one entry.                                                            *)
RECURSIVE MergeSeen(_, _, _)
MergeSeen(S, acc, rest) ==
  IF rest = << >> THEN acc
  ELSE LET x == Head(rest)
           older == \E j \in 1..Len(acc) : acc[j] + 1 <= Len(S.cseen) /\ x \in S.cseen[acc[j] + 1]
       IN MergeSeen(S, IF older THEN acc ELSE Append(acc, x), Tail(rest))
IdxCat(S, a, b) ==
  IF "S1_inherited_delta_reappended" \in Deviations \/ "cseen" \notin DOMAIN S THEN a \o b
  ELSE MergeSeen(S, a, b)

LatestIdx(S)   == {S.ptr[k] + 1 : k \in DOMAIN S.ptr}            \* last_occurrence=True (l.94, 104)
HasStatusIn(S, sts) == \E i \in LatestIdx(S) : S.seq[i].st \in sts
HasActive(S)    == HasStatusIn(S, ActiveSt)                       \* l.139
HasPausingT(S)  == HasStatusIn(S, {"pausing"})
HasPausedT(S)   == HasStatusIn(S, {"paused", "pending"})
HasCancelingT(S) == HasStatusIn(S, {"canceling"})
HasCanceledT(S) == HasStatusIn(S, {"canceled"})
StagedReadyIdx(S) == {i \in 1..Len(S.staged) : S.staged[i].ready /\ ~S.staged[i].completed}   \* l.185
HasStaged(S)    == StagedReadyIdx(S) # {}

StagedIdx(S, t, r) ==                                             \* l.210 (first match), 0 if none
  LET m == {i \in 1..Len(S.staged) : S.staged[i].id = t /\ S.staged[i].route = r}
  IN IF m = {} THEN 0 ELSE MinOf(m)

RecIdxOf(S, t, r) == IF Rid(t, r) \in DOMAIN S.ptr THEN S.ptr[Rid(t, r)] + 1 ELSE 0

CtxMerge(S, idxs) ==                                              \* get_task_context l.1147
  LET has(k, v) == v \in DOMAIN S.ctxs[idxs[k] + 1]
      vars == UNION {DOMAIN S.ctxs[idxs[k] + 1] : k \in 1..Len(idxs)}
  IN [v \in vars |-> S.ctxs[idxs[MaxOf({k \in 1..Len(idxs) : has(k, v)})] + 1][v]]

LogErr(S, cls, t, r, tid, res) ==                                 \* log_entry l.361 (duplicates ignored)
  LET e == [cls |-> cls, task |-> t, route |-> r, tr |-> tid, res |-> res]
  IN IF \E i \in 1..Len(S.errs) : S.errs[i] = e THEN S ELSE [S EXCEPT !.errs = Append(@, e)]

RemoveStaged(S, t, r) ==                                          \* remove_staged_task l.215
  LET si == StagedIdx(S, t, r) IN
  IF si = 0 THEN S
  ELSE IF \E k \in 1..Len(S.staged[si].items) : S.staged[si].items[k] \in ActiveSt THEN S
  ELSE [S EXCEPT !.staged = RemoveAt(@, si)]

ItemsActive(st) == \E k \in 1..Len(st.items) : st.items[k] \in ActiveSt

NewStaged(t, r, ctxin, prev, ready, retry) ==                     \* add_staged_task l.191
  [id |-> t, route |-> r, ready |-> ready, ctxin |-> IF ctxin = << >> THEN <<0>> ELSE ctxin,
   prev |-> prev, hasitems |-> FALSE, items |-> << >>, completed |-> FALSE, rof |-> FALSE,
   retry |-> retry]

(* ------------------------------------------------------------------------------------------ *)
(* inbound criteria (l.518-564)                                                               *)
InboundStatus(d, S, x, r) ==
  LET ins  == Inbound(d, x)
      b    == IF x \in TaskNames(d) /\ d.tasks[x].join \notin {0, -2} THEN d.tasks[x].join ELSE 1   \* barrier or 1
      need == IF b = -1 THEN Cardinality(ins) ELSE b
      evalOf(p) ==
        LET li == RecIdxOf(S, p, r) IN
        IF li = 0 THEN "none"
        ELSE IF \E k \in 1..Len(Edges(d, p)) :
                  LET e == Edges(d, p)[k] IN
                  e.dst = x /\ Tid(x, e.key) \in DOMAIN S.seq[li].next /\ S.seq[li].next[Tid(x, e.key)]
             THEN "true" ELSE "false"
      nTrue == Cardinality({p \in ins : evalOf(p) = "true"})
  IN IF nTrue >= need THEN "sat"
     ELSE IF (\E p \in ins : evalOf(p) = "none") /\ (HasActive(S) \/ HasStaged(S)) THEN "wip"
     ELSE "unsat"

(* _has_next (l.641-681) *)
HasNext(d, S, t, r, evalJoin) ==
  LET li == RecIdxOf(S, t, r) IN
  /\ li # 0
  /\ S.seq[li].st \in Completed
  /\ \E k \in 1..Len(Edges(d, t)) :
       LET e == Edges(d, t)[k]
           tid == Tid(e.dst, e.key)
       IN /\ e.dst # "continue"
          /\ tid \in DOMAIN S.seq[li].next /\ S.seq[li].next[tid]
          /\ IsJoin(d, e.dst) => (~evalJoin \/ InboundStatus(d, S, e.dst, r) # "unsat")
          \* intended design: a transition into a join instance that has already run does not count as work to do
          /\ ~("S2_join_restaged_by_late_arrival" \notin Deviations /\ IsJoin(d, e.dst) /\ ~InCycle(d, e.dst)
               /\ RecIdxOf(S, e.dst, r) # 0 /\ StagedIdx(S, e.dst, r) = 0)

Unreachable(d, S) ==                                              \* get_unreachable_barriers l.158
  {i \in 1..Len(S.staged) :
     /\ IsJoin(d, S.staged[i].id) /\ ~S.staged[i].ready
     /\ InboundStatus(d, S, S.staged[i].id, S.staged[i].route) = "unsat"}

RECURSIVE LogUnreachable(_, _, _)
LogUnreachable(S, idxs, S0) ==                                     \* in staging order
  IF idxs = {} THEN S
  ELSE LET i == MinOf(idxs) IN
       LogUnreachable(LogErr(S, "unreachable_join", S0.staged[i].id, S0.staged[i].route, "none", <<2>>),
                      idxs \ {i}, S0)

(* ------------------------------------------------------------------------------------------ *)
(* workflow state machine (machines.py WorkflowStateMachine)                                  *)
WfEventName(S, status) ==                                         \* add_context_to_workflow_event m.775
  LET base == "workflow_" \o status
      a    == IF status \in {"pausing", "paused", "canceling", "canceled"}
              THEN base \o (IF HasActive(S) THEN "_workflow_active" ELSE "_workflow_dormant") ELSE base
  IN IF S.wf = "paused" /\ status \in {"running", "resuming"}
        /\ ~HasActive(S) /\ ~HasStaged(S) /\ ~HasPausedT(S)
     THEN a \o "_workflow_completed" ELSE a

ProcWfEvent(d, S, status) ==                                      \* process_workflow_event m.800
  LET w1 == WfNext(S.wf, WfEventName(S, status))     \* no row: unchanged
      S1 == [S EXCEPT !.wf = w1]
      \* fix 1be0aa5: a workflow completed by the event is checked for unreachable joins
      unr == IF w1 # S.wf /\ w1 = "succeeded" THEN Unreachable(d, S1) ELSE {}
  IN IF unr = {} THEN S1 ELSE LogUnreachable([S1 EXCEPT !.wf = "failed"], unr, S1)

TaskEventName(d, S, t, r, tst) ==                                 \* add_context_to_task_event m.689
  LET hbn == HasNext(d, S, t, r, FALSE)
      hnt == HasNext(d, S, t, r, TRUE)
      e0  == IF tst \in Abended /\ (hnt \/ hbn) THEN "task_remediated" ELSE "task_" \o tst
      cond == {"task_pending", "task_paused", "task_succeeded", "task_failed", "task_remediated",
               "task_canceled", "task_retrying"}
      e1  == IF e0 \in cond THEN e0 \o (IF HasActive(S) THEN "_workflow_active" ELSE "_workflow_dormant") ELSE e0
  IN IF e0 \notin {"task_succeeded", "task_remediated"} THEN e1
     ELSE IF HasCancelingT(S) \/ HasCanceledT(S) THEN e1 \o "_canceled"
     ELSE IF HasPausingT(S) \/ HasPausedT(S) THEN e1 \o "_paused"
     ELSE IF HasStaged(S) \/ hnt THEN e1 \o "_incomplete"
     ELSE e1 \o "_completed"

ProcTaskEvent(d, S, t, r, tst) ==                                 \* process_task_event m.731
  LET ev  == TaskEventName(d, S, t, r, tst)
      w1  == WfNext(S.wf, ev)
      S1  == [S EXCEPT !.wf = w1]
      unr == IF w1 \in Completed /\ w1 # "canceled" THEN Unreachable(d, S1) ELSE {}   \* fix: not on canceled
  IN IF ~WfHasRow(S.wf, ev) THEN S           \* no row: returns before the unreachable-join check (m.749)
     ELSE IF unr = {} THEN S1 ELSE LogUnreachable([S1 EXCEPT !.wf = "failed"], unr, S1)

(* ------------------------------------------------------------------------------------------ *)
(* task state machine (machines.py TaskStateMachine)                                          *)
ItemSuffix(items, item) ==                                        \* add_context_to_task_item_event m.513
  LET others == {k \in 1..Len(items) : k # item + 1}
      sts(P(_)) == {k \in others : P(items[k])}
      active == sts(LAMBDA x : x \in ActiveSt)
      incomplete == sts(LAMBDA x : x \notin Completed)
      paused == sts(LAMBDA x : x \in {"pending", "paused"})
      canceled == sts(LAMBDA x : x = "canceled")
      failed == sts(LAMBDA x : x \in Abended)
      a == IF active # {} THEN "_task_active" ELSE "_task_dormant"
  IN IF active = {} /\ paused # {} THEN a \o "_items_paused"
     ELSE IF active = {} /\ canceled # {} THEN a \o "_items_canceled"
     ELSE IF active = {} /\ failed # {} THEN a \o "_items_failed"
     ELSE a \o (IF incomplete # {} THEN "_items_incomplete" ELSE "_items_completed")

ActionEventName(S, t, r, ev) ==
  IF ev.kind = "item" /\ ev.status \in {"resuming", "pending", "paused", "succeeded", "failed",
                                         "timeout", "abandoned", "canceled"}
  THEN ev.name \o ItemSuffix(S.staged[StagedIdx(S, t, r)].items, ev.item)
  ELSE ev.name

WfEventForTask(S, t, r, status) ==                                \* add_context_to_workflow_event m.595
  LET si == StagedIdx(S, t, r)
      base == "workflow_" \o status
  IN IF status \in {"pausing", "paused", "canceling", "canceled"} /\ si # 0 /\ S.staged[si].hasitems
     THEN LET items == S.staged[si].items
              active == \E k \in 1..Len(items) : items[k] \in ActiveSt
              incomplete == \E k \in 1..Len(items) : items[k] \notin Completed
          IN base \o (IF active THEN "_task_active" ELSE "_task_dormant")
                  \o (IF incomplete THEN "_items_incomplete" ELSE "_items_completed")
     ELSE base

RECURSIVE PushToActive(_, _, _)
PushToActive(S, idxs, status) ==                                  \* request_workflow_status l.431
  IF idxs = {} THEN S
  ELSE LET i == MinOf(idxs)
           rc == S.seq[i]
           st1 == TkNext(rc.st, WfEventForTask(S, rc.id, rc.route, status))
       IN PushToActive([S EXCEPT !.seq[i].st = st1], idxs \ {i}, status)

(* ------------------------------------------------------------------------------------------ *)
(* API: construction                                                                          *)
S0 == [wf |-> "null", seq |-> << >>, staged |-> << >>, ctxs |-> << >>, routes |-> << >>,
       ptr |-> << >>, errs |-> << >>, hasout |-> FALSE, out |-> << >>, reruns |-> << >>,
       cseen |-> << >>]        \* (model only: per context entry, the entries its publisher ran with)

RECURSIVE RollVars(_, _, _)
RollVars(vs, i, ctx) ==                                           \* render_vars (models.py)
  IF i > Len(vs) THEN [ctx |-> ctx, nerr |-> 0]
  ELSE LET v == EvalVal(vs[i][2], <<2>>, ctx) IN
       IF v = <<-1>> THEN LET rest == RollVars(vs, i + 1, ctx) IN [ctx |-> rest.ctx, nerr |-> rest.nerr + 1]
       ELSE RollVars(vs, i + 1, (vs[i][1] :> v) @@ ctx)

RootsInOrder(d) == SortSeq(SetToSeq(Roots(d)), LAMBDA a, b : d.rank[a] < d.rank[b])

(* the projection keeps one error entry per (class, task, route, transition, result) *)
LogN(S, n, cls, t, r, tid) == IF n = 0 THEN S ELSE LogErr(S, cls, t, r, tid, <<2>>)

New(d) ==                                                         \* workflow_state l.312-351
  LET rv == RollVars(d.vars, 1, << >>) IN
  IF rv.nerr > 0
  THEN [LogN(S0, rv.nerr, "expr", "none", -1, "none") EXCEPT !.wf = "failed"]
  ELSE [S0 EXCEPT !.ctxs = <<rv.ctx>>, !.cseen = <<{}>>, !.routes = << << >> >>,
                  !.staged = [i \in 1..Len(RootsInOrder(d)) |->
                                NewStaged(RootsInOrder(d)[i], 0, <<0>>, << >>, TRUE, FALSE)]]

(* request_workflow_status (l.423-458): returns [S, ret] *)
Req(d, S, status) ==
  LET S1 == PushToActive(S, {i \in LatestIdx(S) : S.seq[i].st \in ActiveSt}, status)
      S2 == ProcWfEvent(d, S1, status)
      ignored == \/ status = "paused" /\ S.wf = "pausing" /\ S2.wf = "pausing"
                 \/ status = "canceled" /\ S.wf = "canceling" /\ S2.wf = "canceling"
  IN IF ~ignored /\ status # S.wf /\ S.wf = S2.wf
     THEN \* (as repaired) a rejected request leaves the task statuses as they were
          [S |-> [S2 EXCEPT !.seq = S.seq], ret |-> "InvalidWorkflowStatusTransition"]
     ELSE [S |-> S2, ret |-> "ok"]

(* ------------------------------------------------------------------------------------------ *)
(* API: get_next_tasks (l.692-734)                                                            *)
TaskRenderBad(d, t) == FALSE     \* positions action/input/delay/items/concurrency: see Faults (C11)

Window(d, t, items) ==                                            \* _evaluate_task_actions l.608
  LET notrun == {k \in 1..Len(items) : items[k] = "null"}
      nact   == Cardinality({k \in 1..Len(items) : items[k] \in ActiveSt})
      conc   == d.tasks[t].conc
      k1     == IF conc # -1 /\ conc <= 0 THEN 1 ELSE conc
      avail  == IF conc = -1 THEN Len(items) ELSE IF k1 - nact > 0 THEN k1 - nact ELSE 0
      ordered == Asc(notrun)
  IN [k \in 1..(IF Len(ordered) < avail THEN Len(ordered) ELSE avail) |-> ordered[k] - 1]

OfferOf(d, S, si) ==
  LET s == S.staged[si]
      t == s.id
      n == IF t \in TaskNames(d) THEN d.tasks[t].items ELSE -1
      w == IF n >= 0 THEN Window(d, t, s.items) ELSE << >>
  IN [id |-> t, route |-> s.route, items |-> w, nitems |-> n,
      nact |-> IF n >= 0 THEN Len(w) ELSE 1,
      delay |-> IF s.retry THEN (IF RecIdxOf(S, t, s.route) # 0 /\ S.seq[RecIdxOf(S, t, s.route)].rdelay > 0
                                 THEN S.seq[RecIdxOf(S, t, s.route)].rdelay ELSE 0)
                ELSE IF t \in TaskNames(d) THEN d.tasks[t].delay ELSE -1,
      ctx |-> CtxMerge(S, s.ctxin)]

RECURSIVE LogBad(_, _, _)
LogBad(S, idxs, Sref) ==
  IF idxs = << >> THEN S
  ELSE LogBad(LogErr(S, "expr", Sref.staged[Head(idxs)].id, Sref.staged[Head(idxs)].route, "none", <<2>>), Tail(idxs), Sref)

Query(d, S) ==
  LET rem   == IF S.wf = "failed" THEN {i \in StagedReadyIdx(S) : S.staged[i].rof} ELSE {}
      cands == IF rem # {} THEN rem ELSE StagedReadyIdx(S)
  IN IF S.wf \notin RunningSt /\ rem = {} THEN [S |-> S, offers |-> << >>]
     ELSE LET \* items are initialised in staging as a side effect (l.620)
              S1 == [S EXCEPT !.staged = [i \in 1..Len(S.staged) |->
                        IF i \in cands /\ HasItems(d, S.staged[i].id) /\ S.staged[i].items = << >>
                        THEN [S.staged[i] EXCEPT !.hasitems = TRUE,
                                                 !.items = [k \in 1..d.tasks[S.staged[i].id].items |-> "null"]]
                        ELSE S.staged[i]]]
              raw == [i \in 1..Len(S1.staged) |-> OfferOf(d, S1, i)]
              keep == {i \in cands : raw[i].nact > 0 \/ raw[i].nitems = 0}
              srt == SortSeq(SetToSeq(keep),
                             LAMBDA a, b : d.rank[S1.staged[a].id] < d.rank[S1.staged[b].id]
                                           \/ (S1.staged[a].id = S1.staged[b].id /\ S1.staged[a].route < S1.staged[b].route))
              \* candidates whose action / input / items / concurrency / delay fail to render are
              \* logged (in staging order), the workflow is failed and nothing is returned (l.724-732)
              badc == {i \in cands : S.staged[i].id \in TaskNames(d) /\ d.tasks[S.staged[i].id].bad # ""}
              S1b  == [S1 EXCEPT !.staged = [i \in 1..Len(S1.staged) |-> IF i \in badc THEN S.staged[i] ELSE S1.staged[i]]]
          IN IF badc = {} THEN [S |-> S1, offers |-> [k \in 1..Len(srt) |-> raw[srt[k]]]]
             ELSE [S |-> Req(d, LogBad(S1b, Asc(badc), S1b), "failed").S, offers |-> << >>]

(* ------------------------------------------------------------------------------------------ *)
(* API: update_task_state (l.837-1099)                                                        *)
AddRecord(d, S, t, r, ctxin, prev) ==                             \* add_task_state l.811
  LET hr  == t \in TaskNames(d) /\ (d.tasks[t].retry.on \/ RetryCmd(d, t))
      cnt == IF t \in TaskNames(d) /\ d.tasks[t].retry.on THEN d.tasks[t].retry.count ELSE IF hr THEN 3 ELSE -1
      dly == IF t \in TaskNames(d) /\ d.tasks[t].retry.on THEN d.tasks[t].retry.delay ELSE -1
      rc  == [id |-> t, route |-> r, st |-> "null", term |-> FALSE, prev |-> prev, next |-> << >>,
              ctxin |-> IF ctxin = << >> THEN <<0>> ELSE ctxin,
              hasretry |-> hr, rcount |-> cnt, rtally |-> 0, rdelay |-> dly]
      rb  == t \in TaskNames(d) /\ d.tasks[t].rbad # ""
      rc1 == IF rb THEN [rc EXCEPT !.rcount = 0, !.rdelay = -1] ELSE rc
      S1  == [S EXCEPT !.seq = Append(@, rc1), !.ptr = Upd(@, Rid(t, r), Len(S.seq))]
  IN IF rb THEN Req(d, LogErr(S1, "expr", t, r, "none", <<2>>), "failed").S ELSE S1

EvalRoute(d, S, t, e, r) ==                                        \* _evaluate_route l.1101
  IF ~IsSplit(d, e.dst) \/ InCycle(d, e.dst) THEN [S |-> S, route |-> r]
  ELSE LET old == S.routes[r + 1]
           ptid == Tid(t, e.key)
           new == IF \E k \in 1..Len(old) : old[k] = ptid THEN old ELSE Append(old, ptid)
       IN IF new = old THEN [S |-> S, route |-> r]
          ELSE [S |-> [S EXCEPT !.routes = Append(@, new)], route |-> Len(S.routes)]

RetryWhen(d, t) == IF d.tasks[t].retry.on THEN d.tasks[t].retry.when ELSE
                   \* the retry command: its own condition, or completed() when unconditional
                   LET i == CHOOSE i \in 1..Len(d.tasks[t].next) :
                              \E j \in 1..Len(d.tasks[t].next[i].do) : d.tasks[t].next[i].do[j] = "retry"
                   IN IF d.tasks[t].next[i].when.k = "always" THEN [k |-> "completed", v |-> "", n |-> 0]
                      ELSE d.tasks[t].next[i].when

RetryEval(d, S, li, res) ==                                        \* _evaluate_task_retry l.1128: "T" | "F" | "E"
  LET rc == S.seq[li] IN
  IF ~rc.hasretry \/ rc.rtally >= rc.rcount THEN "F"
  ELSE LET w == RetryWhen(d, rc.id) IN
       IF w.k = "default" THEN (IF rc.st \in Abended THEN "T" ELSE "F")
       ELSE EvalCond(w, rc.st, res, CtxMerge(S, rc.ctxin))
ShouldRetry(d, S, li, res) == RetryEval(d, S, li, res) = "T"

Ev(kind, name, status, item, res, acc) ==
  [kind |-> kind, name |-> name, status |-> status, item |-> item, res |-> res, acc |-> acc]
ActionEv(status, res)          == Ev("action", "action_" \o status, status, -1, res, <<2>>)
ItemEv(item, status, res, acc) == Ev("item", "action_" \o status, status, item, res, acc)
EngineEv(cmd) == Ev("engine", "task_" \o cmd \o "_requested",
                    CASE cmd = "fail" -> "failed" [] cmd = "retry" -> "retrying" [] OTHER -> "succeeded",
                    -1, <<2>>, <<2>>)

(* one satisfied-or-not transition of the completed record li (l.967-1070) *)
(* acc = [S, queue, manualFail, readied] *)
StepEdge(d, acc, li, t, r, e, res) ==
  LET S    == acc.S
      rc   == S.seq[li]
      tid  == Tid(e.dst, e.key)
      cctx == CtxMerge(S, rc.ctxin)
      c    == EvalCond(e.when, rc.st, res, cctx)
  IN
  IF c = "E"
  THEN \* criteria failed to evaluate: log, request failed, next[tid] stays unset (l.979-982)
       [acc EXCEPT !.S = Req(d, LogErr(S, "expr", t, r, tid, <<2>>), "failed").S]
  ELSE
  LET S1 == [S EXCEPT !.seq[li].next = Upd(@, tid, c = "T")] IN
  IF c = "F" THEN [acc EXCEPT !.S = S1]
  ELSE
  LET pr == PubRoll(e.pub, 1, res, cctx) IN
  IF ~pr.ok
  THEN [acc EXCEPT !.S = Req(d, LogErr(S1, "expr", t, r, tid, <<2>>), "failed").S]
  ELSE
  LET hasNew == DOMAIN pr.new # {}
      \* As the code does it every (transition, target) pair appends its own copy of the published delta;
      \* in the intended design (S1 repaired) the targets of one transition share one entry, so that a
      \* join can tell an inherited delta from a new one by its index.
      shared == "S1_inherited_delta_reappended" \notin Deviations /\ e.ti \in DOMAIN acc.pidx
      S2  == IF hasNew /\ ~shared
             THEN LET Sx == [S1 EXCEPT !.ctxs = Append(@, pr.new)] IN
                  IF "cseen" \in DOMAIN S1 THEN [Sx EXCEPT !.cseen = Append(@, {rc.ctxin[q] : q \in 1..Len(rc.ctxin)})] ELSE Sx
             ELSE S1
      nidx == IF shared THEN acc.pidx[e.ti] ELSE Len(S2.ctxs) - 1
      out == IF hasNew THEN Append(rc.ctxin, nidx) ELSE rc.ctxin
      pidx1 == IF hasNew THEN (e.ti :> nidx) @@ acc.pidx ELSE acc.pidx
  IN
  IF "S2_join_restaged_by_late_arrival" \notin Deviations /\ IsJoin(d, e.dst) /\ ~InCycle(d, e.dst)
     /\ RecIdxOf(S1, e.dst, r) # 0 /\ StagedIdx(S1, e.dst, r) = 0
  THEN \* intended design (S2 repaired): the decision and what the transition publishes are recorded, the join
       \* is not staged a second time
       [acc EXCEPT !.S = S2, !.pidx = pidx1]
  ELSE
  LET dummy == 0
      er  == EvalRoute(d, S2, t, e, r)
      S3  == er.S
      si  == StagedIdx(S3, e.dst, er.route)
      backref == Tid(t, e.key)
      S4  == IF si # 0
             THEN \* merge into the entry already staged (l.1028-1040)
                  [S3 EXCEPT !.staged[si].ctxin = IdxCat(S3, @, RemoveFirstZero(out)),
                             !.staged[si].prev = Upd(@, backref, li - 1),
                             \* fix da1bdf7: items are kept while some item is active
                             !.staged[si].hasitems = IF ItemsActive(S3.staged[si]) THEN @ ELSE FALSE,
                             !.staged[si].items = IF ItemsActive(S3.staged[si]) THEN @ ELSE << >>,
                             !.staged[si].completed = IF ItemsActive(S3.staged[si]) THEN @ ELSE FALSE]
             ELSE [S3 EXCEPT !.staged = Append(@, NewStaged(e.dst, er.route, out,
                                                            (backref :> (li - 1)), FALSE, FALSE))]
      sj  == IF si # 0 THEN si ELSE Len(S4.staged)
      rdy == InboundStatus(d, S4, e.dst, r) = "sat"
      S5  == [S4 EXCEPT !.staged[sj].ready = rdy]
  IN IF e.dst \in Cmds
     THEN [S |-> S5, queue |-> Append(acc.queue, <<e.dst, er.route>>),
           manualFail |-> acc.manualFail \/ e.dst = "fail", readied |-> acc.readied, pidx |-> pidx1]
     ELSE [S |-> S5, queue |-> acc.queue, manualFail |-> acc.manualFail,
           readied |-> IF rdy THEN acc.readied \cup {<<e.dst, er.route>>} ELSE acc.readied, pidx |-> pidx1]

RECURSIVE Edges_(_, _, _, _, _, _, _)
Edges_(d, acc, li, t, r, k, res) ==
  IF k > Len(Edges(d, t)) THEN acc
  ELSE Edges_(d, StepEdge(d, acc, li, t, r, Edges(d, t)[k], res), li, t, r, k + 1, res)

MarkRof(S, keys) ==
  [S EXCEPT !.staged = [i \in 1..Len(S.staged) |->
     IF <<S.staged[i].id, S.staged[i].route>> \in keys THEN [S.staged[i] EXCEPT !.rof = TRUE] ELSE S.staged[i]]]

(* fix: the workflow is only held by a pause and the resume will complete it (nothing left to run) *)
HeldComplete(S, li) == /\ S.wf = "paused" /\ S.seq[li].st \in Completed
                       /\ ~HasActive(S) /\ ~HasStaged(S) /\ ~HasPausedT(S)

RECURSIVE UTS(_, _, _, _, _)
RECURSIVE RunQueue(_, _, _)

(* returns [S, ret] *)
UTS(d, S, t, r, ev) ==
  LET si0 == StagedIdx(S, t, r)
      li0 == RecIdxOf(S, t, r)
  IN
  IF si0 = 0 /\ li0 = 0 THEN [S |-> S, ret |-> "InvalidTaskStateEntry"]
  ELSE
  LET \* l.860: new record if none, or engine command
      needNew1 == li0 = 0 \/ t \in Cmds
      Sa  == IF needNew1 THEN AddRecord(d, S, t, S.staged[si0].route, S.staged[si0].ctxin, S.staged[si0].prev) ELSE S
      lia == RecIdxOf(Sa, t, r)
      \* l.876: completed record + starting status = another visit (cycle / rerun)
      needNew2 == Sa.seq[lia].st \in Completed /\ ev.status \in StartingSt
      Sb  == IF needNew2 THEN AddRecord(d, Sa, t, Sa.staged[si0].route, Sa.staged[si0].ctxin, Sa.staged[si0].prev) ELSE Sa
      li  == RecIdxOf(Sb, t, r)
      \* l.892: un-stage unless with-items
      Sc  == IF si0 # 0 /\ ~Sb.staged[si0].hasitems THEN RemoveStaged(Sb, t, r) ELSE Sb
      \* l.898: record the item's status
      Sd  == IF si0 # 0 /\ ev.kind = "item" THEN [Sc EXCEPT !.staged[StagedIdx(Sc, t, r)].items[ev.item + 1] = ev.status] ELSE Sc
      \* l.902: failed execution is logged
      Se  == IF ev.status = "failed" THEN LogErr(Sd, "exec_failed", t, -1, "none", ev.res) ELSE Sd
      orphan == ev.kind = "item" /\ StagedIdx(Se, t, r) = 0
                /\ ev.status \in {"resuming", "pending", "paused", "succeeded", "failed", "timeout", "abandoned", "canceled"}
      old == Se.seq[li].st
      new == IF orphan THEN old ELSE TkNext(old, ActionEventName(Se, t, r, ev))
      Sf  == [Se EXCEPT !.seq[li].st = new]
  IN
  IF orphan
  THEN \* an item reports although its task has no staged entry any more (downstream of S8b, or a dormant
       \* item of a task that already completed): machines.py m.529 subscripts None -> TypeError
       [S |-> Se, ret |-> "TypeError"]
  ELSE
  IF si0 # 0 /\ ev.kind = "item" /\ ~Sb.staged[si0].hasitems
  THEN \* known finding S8b: the items list was reset by a late arrival; l.899 raises KeyError after
       \* the entry has been un-staged at l.892
       [S |-> Sc, ret |-> "KeyError"]
  ELSE
  IF new = "retrying"
  THEN \* l.913-927
       LET Sg == [Sf EXCEPT !.seq[li].rtally = @ + 1]
           Sh == RemoveStaged(Sg, t, r)
           Si == [Sh EXCEPT !.staged = Append(@, NewStaged(t, r, Sh.seq[li].ctxin, Sh.seq[li].prev, TRUE, TRUE))]
           Sj == ProcTaskEvent(d, Si, t, r, "retrying")
       IN [S |-> [Sj EXCEPT !.seq[li].term = @ \/ Sj.wf \in Completed \/ HeldComplete(Sj, li)], ret |-> "ok"]
  ELSE
  LET isItems == HasItems(d, t)
      \* l.930-937
      Sg == IF new \in Completed
            THEN IF ~(isItems /\ new \in Abended) THEN RemoveStaged(Sf, t, r)
                 ELSE [Sf EXCEPT !.staged[StagedIdx(Sf, t, r)].completed = TRUE]
            ELSE Sf
      res == IF isItems THEN (IF ev.kind = "item" THEN ev.acc ELSE (IF ev.res = <<2>> THEN <<1>> ELSE ev.res)) ELSE ev.res
  IN
  IF new \in Completed /\ Sg.wf \in ActiveSt /\ ShouldRetry(d, Sg, li, res)
  THEN UTS(d, Sg, t, r, EngineEv("retry"))                        \* l.949-952
  ELSE
  LET \* (as repaired) a retry condition that fails to evaluate is logged and fails the workflow
      Sg2 == IF new \in Completed /\ Sg.wf \in ActiveSt /\ RetryEval(d, Sg, li, res) = "E"
             THEN Req(d, LogErr(Sg, "expr", t, r, "none", <<2>>), "failed").S ELSE Sg
  IN
  LET Sh == IF new \in Completed /\ new # old
            THEN LET a0 == [S |-> IF Len(Edges(d, t)) = 0 THEN [Sg2 EXCEPT !.seq[li].term = TRUE] ELSE Sg2,
                            queue |-> << >>, manualFail |-> FALSE, readied |-> {}, pidx |-> << >>]
                     a1 == Edges_(d, a0, li, t, r, 1, res)
                     \* fix: terminal also when transitions exist but none is satisfied
                     nx == a1.S.seq[li].next
                     a2 == IF Len(Edges(d, t)) > 0 /\ ~(\E k \in DOMAIN nx : nx[k])
                           THEN [a1 EXCEPT !.S.seq[li].term = TRUE] ELSE a1
                 IN [S |-> IF a2.manualFail THEN MarkRof(a2.S, a2.readied) ELSE a2.S, queue |-> a2.queue]
            ELSE [S |-> Sg2, queue |-> << >>]
      Si == ProcTaskEvent(d, Sh.S, t, r, Sh.S.seq[li].st)          \* l.1086
      Sj == RunQueue(d, Si, Sh.queue)                              \* l.1090
  IN [S |-> [Sj EXCEPT !.seq[li].term = @ \/ Sj.wf \in Completed \/ HeldComplete(Sj, li)], ret |-> "ok"]

RunQueue(d, S, q) ==
  IF q = << >> THEN S
  ELSE RunQueue(d, UTS(d, S, q[1][1], q[1][2], EngineEv(q[1][1])).S, Tail(q))

(* ------------------------------------------------------------------------------------------ *)
(* API: output (l.463-510)                                                                    *)
TermCtx(S) ==                                                      \* get_workflow_terminal_context
  LET terms == Asc({i \in 1..Len(S.seq) : S.seq[i].term})
      idxs  == IF terms = << >> THEN << >>
               ELSE IdxCat(S, S.seq[terms[1]].ctxin,
                    FlattenSeq([k \in 1..(Len(terms) - 1) |->
                       \* in_ctx_idxs.remove(0): the first occurrence of 0 is dropped
                       RemoveFirstZero(S.seq[terms[k + 1]].ctxin)]))
  IN IF idxs = << >> THEN << >> ELSE CtxMerge(S, idxs)

RECURSIVE RollOut(_, _, _, _)
RollOut(os, i, ctx, acc) ==
  IF i > Len(os) THEN acc
  ELSE LET v == EvalVal(os[i][2], <<2>>, ctx) IN
       IF v = <<-1>> THEN RollOut(os, i + 1, ctx, [acc EXCEPT !.nerr = @ + 1])
       ELSE RollOut(os, i + 1, (os[i][1] :> v) @@ ctx, [acc EXCEPT !.out = (os[i][1] :> v) @@ @])

Render(d, S) ==
  IF S.wf \notin Completed \/ S.hasout THEN S
  ELSE LET ro == RollOut(d.output, 1, TermCtx(S), [out |-> << >>, nerr |-> 0])
           S1 == IF DOMAIN ro.out # {} THEN [S EXCEPT !.hasout = TRUE, !.out = ro.out] ELSE S
       IN IF ro.nerr = 0 THEN S1
          ELSE LET S2 == LogN(S1, ro.nerr, "expr", "none", -1, "none")
               IN IF S2.wf \in {"timeout", "abandoned", "canceled"} THEN S2 ELSE Req(d, S2, "failed").S

(* ------------------------------------------------------------------------------------------ *)
(* API: request_workflow_rerun (l.1187-1307)                                                  *)
TaskSeqIdx(S, t, r) ==                                             \* get_task_sequence l.109: one level deep
  {RecIdxOf(S, t, r)} \cup
  {i \in 1..Len(S.seq) : \E k \in DOMAIN S.seq[i].prev :
       LET v == S.seq[i].prev[k] + 1 IN S.seq[v].id = t /\ S.seq[v].route = r}

RerunOne(d, S, t, r, reset) ==                                     \* _request_task_rerun l.1187
  LET li  == RecIdxOf(S, t, r)
      cx  == S.seq[li].ctxin
      pv  == S.seq[li].prev
      S1  == [S EXCEPT !.seq[li].term = FALSE]
      si  == StagedIdx(S1, t, r)
      S2  == IF si # 0 THEN [S1 EXCEPT !.staged[si].completed = FALSE] ELSE S1
      S3  == [S2 EXCEPT !.errs = SelectSeq(@, LAMBDA e : e.task # t)]
      S4  == IF HasItems(d, t) /\ si # 0          \* (as repaired) without a staged entry the task is run again as a whole
             THEN [S3 EXCEPT !.staged[si].items = [k \in 1..Len(@) |-> IF reset = 1 \/ @[k] \in Abended THEN "null" ELSE @[k]]]
             ELSE LET Sa == AddRecord(d, S3, t, r, cx, pv)
                  IN [Sa EXCEPT !.staged = Append(@, NewStaged(t, r, cx, pv, TRUE, FALSE))]
      seqi == TaskSeqIdx(S4, t, r)
  IN [S4 EXCEPT !.seq = [i \in 1..Len(S4.seq) |-> IF i \in seqi THEN [S4.seq[i] EXCEPT !.term = FALSE] ELSE S4.seq[i]]]

RECURSIVE RerunAll(_, _, _)
RerunAll(d, S, cs) == IF cs = << >> THEN S ELSE RerunAll(d, RerunOne(d, S, cs[1][1], cs[1][2], cs[1][3]), Tail(cs))

(* reqs : Seq(<<task, route, reset (0/1)>>) in request order; returns [S, ret] *)
Rerun(d, S, reqs) ==
  IF S.wf \notin Completed THEN [S |-> S, ret |-> "WorkflowIsActiveAndNotRerunableError"]
  ELSE
  LET keys  == [i \in 1..Len(reqs) |-> Rid(reqs[i][1], reqs[i][2])]
      \* duplicates: the last request with a key wins, at the position of the first
      first == SelectSeq([i \in 1..Len(reqs) |-> i], LAMBDA i : \A j \in 1..(i - 1) : keys[j] # keys[i])
      lastOf(i) == MaxOf({j \in 1..Len(reqs) : keys[j] = keys[i]})
      tasks == [k \in 1..Len(first) |-> reqs[lastOf(first[k])]]
  IN
  IF \E k \in 1..Len(tasks) : Rid(tasks[k][1], tasks[k][2]) \notin DOMAIN S.ptr
  THEN [S |-> S, ret |-> "InvalidTaskRerunRequest"]
  ELSE
  LET sq(k) == TaskSeqIdx(S, tasks[k][1], tasks[k][2])
      keep  == IF Len(tasks) <= 1 THEN {k \in 1..Len(tasks) : TRUE}
               ELSE {k \in 1..Len(tasks) : \E j \in 1..Len(tasks) : sq(k) \ sq(j) # {}}   \* _collapse_task_rerun_requests
      \* default: abended terminal records that are not engine commands (fix fd8119a), latest per (task, route)
      isd(i) == S.seq[i].term /\ S.seq[i].st \in Abended /\ S.seq[i].id \notin Cmds
      same(i, j) == S.seq[j].id = S.seq[i].id /\ S.seq[j].route = S.seq[i].route
      \* a dict keyed by task/route: position of the first such record, value of the last
      dflt  == {i \in 1..Len(S.seq) : isd(i) /\ \A j \in 1..(i - 1) : ~(isd(j) /\ same(i, j))}
      lastd(i) == MaxOf({j \in 1..Len(S.seq) : isd(j) /\ same(i, j)})
      cands == IF Len(tasks) = 0
               THEN [k \in 1..Cardinality(dflt) |-> LET i == lastd(Asc(dflt)[k]) IN <<S.seq[i].id, S.seq[i].route, 0, i - 1>>]
               ELSE LET ks == Asc(keep) IN
                    [k \in 1..Len(ks) |-> <<tasks[ks[k]][1], tasks[ks[k]][2], tasks[ks[k]][3],
                                            S.ptr[Rid(tasks[ks[k]][1], tasks[ks[k]][2])]>>]
  IN
  IF cands = << >> THEN [S |-> S, ret |-> "InvalidTaskRerunRequest"]
  ELSE
  \* (fix d308047) the status is resuming while the tasks are prepared: an expression error of a retry policy
  \* evaluated for a new execution record fails the workflow through the status machine
  LET S1 == [S EXCEPT !.reruns = Append(@, [k \in 1..Len(cands) |-> cands[k][4]]), !.wf = "resuming"]
      ord == SortSeq(cands, LAMBDA a, b : d.rank[a[1]] < d.rank[b[1]] \/ (a[1] = b[1] /\ a[2] < b[2]))
      S2 == RerunAll(d, S1, ord)
      \* continuable candidates: terminal records with a satisfied transition are no longer terminal
      S3 == [S2 EXCEPT !.seq = [i \in 1..Len(S2.seq) |->
                IF S2.seq[i].term /\ \E k \in DOMAIN S2.seq[i].next : S2.seq[i].next[k]
                THEN [S2.seq[i] EXCEPT !.term = FALSE] ELSE S2.seq[i]]]
  IN [S |-> [S3 EXCEPT !.hasout = FALSE, !.out = << >>], ret |-> "ok"]

=============================================================================
