SPECIFICATION Spec
INVARIANT GraphIsRef
INVARIANT Bounded
PROPERTY Terminates
CHECK_DEADLOCK FALSE
