------------------------------ MODULE Conform ------------------------------
(* code -> spec conformance: every recorded step of the real conductor is compared with what  *)
(* Spec B (Conductor.tla) computes from the recorded pre-state and the call.  A difference is  *)
(* a *divergence* (printed as <<"D", tree, node, field>>), never by itself a violation          *)
(* (DESIGN.md section 1): on the unchanged tree there must be none.                             *)
EXTENDS Conductor, Json, IOUtils

Batch == JsonDeserialize(IOEnv.TRACE_FILE)

VARIABLES tr, nd
vars == <<tr, nd>>

Obs0 == [wf |-> "null", seq |-> << >>, staged |-> << >>, ctxs |-> << >>, routes |-> << >>,
         ptr |-> << >>, errs |-> << >>, hasout |-> FALSE, out |-> << >>, reruns |-> << >>,
         infl |-> << >>, dorm |-> << >>, q |-> FALSE, offers |-> << >>]

Node(t, n)   == Batch[t].nodes[n]
ObsAt(t, n)  == IF n = 0 THEN Obs0 ELSE Node(t, n).obs
KidsOf(t, n) == IF n = 0 THEN Batch[t].roots ELSE Node(t, n).kids

Apply(d, P, c) ==
  CASE c.op = "new"     -> [S |-> New(d), ret |-> "ok", offers |-> << >>]
    [] c.op = "req"     -> LET x == Req(d, P, c.st) IN [S |-> x.S, ret |-> x.ret, offers |-> << >>]
    [] c.op = "query"   -> LET x == Query(d, P) IN [S |-> x.S, ret |-> "ok", offers |-> x.offers]
    [] c.op = "start"   -> LET x == UTS(d, P, c.task, c.route,
                                        \* (a provider may acknowledge with `requested` / `delayed` before `running`)
                                        IF c.item >= 0 THEN ItemEv(c.item, c.st, <<2>>, <<2>>)
                                        ELSE ActionEv(c.st, <<2>>))
                           IN [S |-> x.S, ret |-> x.ret, offers |-> << >>]
    [] c.op = "report"  -> LET x == UTS(d, P, c.task, c.route,
                                        IF c.item >= 0 THEN ItemEv(c.item, c.st, c.res, c.acc)
                                        ELSE ActionEv(c.st, c.res))
                           IN [S |-> x.S, ret |-> x.ret, offers |-> << >>]
    [] c.op = "rerun"   -> LET x == Rerun(d, P, c.arg) IN [S |-> x.S, ret |-> x.ret, offers |-> << >>]
    [] c.op = "render"  -> [S |-> Render(d, P), ret |-> "ok", offers |-> << >>]
    [] OTHER            -> [S |-> P, ret |-> "ok", offers |-> << >>]

Modelled(c) == c.op \in {"new", "req", "query", "start", "report", "render", "persist", "rerun"}

Diff(d, prev, step) ==
  IF ~Modelled(step.call) THEN {}
  ELSE LET x == Apply(d, prev, step.call)
           o == step.obs
           F(n, ok) == IF ok THEN {} ELSE {n}
       IN F("ret", x.ret = step.ret) \cup
          (IF step.ret # "ok" /\ x.ret = step.ret THEN {} ELSE
           F("wf", x.S.wf = o.wf) \cup F("seq", x.S.seq = o.seq) \cup F("staged", x.S.staged = o.staged) \cup
           F("ctxs", x.S.ctxs = o.ctxs) \cup F("routes", x.S.routes = o.routes) \cup F("ptr", x.S.ptr = o.ptr) \cup
           F("errs", x.S.errs = o.errs) \cup F("hasout", x.S.hasout = o.hasout) \cup F("out", x.S.out = o.out) \cup
           F("reruns", x.S.reruns = o.reruns) \cup
           F("offers", step.call.op # "query" \/ x.offers = o.offers))

Init == tr \in 1..Len(Batch) /\ nd = 0
Next == \E i \in 1..Len(KidsOf(tr, nd)) :
          LET k == KidsOf(tr, nd)[i]
              df == Diff(Batch[tr].def, ObsAt(tr, nd), Node(tr, k))
          IN /\ nd' = k /\ tr' = tr
             /\ \A f \in df : PrintT(<<"D", Batch[tr].tid, k, f>>)
Spec == Init /\ [][Next]_vars
=============================================================================
