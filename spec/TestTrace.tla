----------------------------- MODULE TestTrace -----------------------------
(* Validation of traces recorded from the repository's own tests (harness/testrec.py): every  *)
(* WorkflowConductor a test drives, one step per public API call.  The definitions behind     *)
(* these traces use arbitrary expressions, so only the clauses of Props that do not need the  *)
(* meaning of a condition or a published value are evaluated here:                            *)
(*   - the definition-free clauses of Props, unchanged (C02, C04, C09, C17, C18, C19),        *)
(*   - structural variants of C01/C07 (an offer needs a completed predecessor; a join needs   *)
(*     enough completed inbound tasks) over the *graph* of the test's definition,             *)
(*   - C02/C03/C04/C10 clauses over a small monitor (terminal latch, cancel request).         *)
(* Same input format and verdict lines as Trace.tla; the traces are chains.                   *)
(* Steps a disciplined provider would not take (the harness cuts the trace there) never reach *)
(* this module.  A "tamper" step (a test changed the state behind the API) restarts the       *)
(* monitor and is compared with nothing.                                                      *)
EXTENDS Props, Json, IOUtils

Batch == JsonDeserialize(IOEnv.TRACE_FILE)

VARIABLES tr, nd, m, bad
vars == <<tr, nd, m, bad>>

Obs0 == [wf |-> "null", seq |-> << >>, staged |-> << >>, ctxs |-> << >>, routes |-> << >>,
         ptr |-> << >>, errs |-> << >>, hasout |-> FALSE, out |-> << >>, reruns |-> << >>,
         infl |-> << >>, dorm |-> << >>, q |-> FALSE, offers |-> << >>]

Own(t) == {Batch[t].own[i] : i \in 1..Len(Batch[t].own)}
OkRets(t) == {Batch[t].okrets[i] : i \in 1..Len(Batch[t].okrets)}
Node(t, n)  == Batch[t].nodes[n]
ObsAt(t, n) == IF n = 0 THEN Obs0 ELSE Node(t, n).obs
KidsOf(t, n) == IF n = 0 THEN Batch[t].roots ELSE Node(t, n).kids

Begun == {"running", "pausing", "paused", "resuming", "canceling", "canceled", "succeeded", "failed"}
M0 == [term |-> "none", cancelReq |-> FALSE, started |-> FALSE]
Fresh(obs) == [term |-> "none", cancelReq |-> obs.wf \in {"canceling", "canceled"}, started |-> obs.wf \in Begun]

MStep(m0, prev, step) ==
  LET c == step.call IN
  CASE c.op \in {"new", "tamper"} -> Fresh(step.obs)
    [] c.op = "req" /\ step.ret = "ok" ->
         [m0 EXCEPT !.started = @ \/ c.st \in {"running", "resuming"},
                    !.cancelReq = @ \/ c.st \in {"canceling", "canceled"}]
    [] c.op = "rerun" /\ step.ret = "ok" -> [m0 EXCEPT !.term = "none", !.cancelReq = FALSE]
    [] OTHER -> m0
MLatch(m1, step) == [m1 EXCEPT !.term = IF @ = "none" /\ step.obs.wf \in Terminal THEN step.obs.wf ELSE @]

(* tasks listed beside a fail command (they run although the workflow failed) *)
CleanupSet(d) == {x \in TaskNames(d) : \E t \in TaskNames(d) : \E i \in 1..Len(d.tasks[t].next) :
                     LET do == d.tasks[t].next[i].do IN
                     (\E j \in 1..Len(do) : do[j] = "fail") /\ (\E j \in 1..Len(do) : do[j] = x)}
DoneTasks(obs) == {obs.seq[i].id : i \in {j \in 1..Len(obs.seq) : obs.seq[j].st \in Completed}}

T_C01_justified(d, step) ==
  \A i \in 1..Len(step.obs.offers) :
     LET x == step.obs.offers[i].id IN
     x \in TaskNames(d) => (Inbound(d, x) = {} \/ Inbound(d, x) \cap DoneTasks(step.obs) # {}
                              \/ OpenRec(step.obs, x, step.obs.offers[i].route))
T_C07_need(d, step) ==
  \A i \in 1..Len(step.obs.offers) :
     LET x == step.obs.offers[i].id IN
     (x \in TaskNames(d) /\ d.tasks[x].join \notin {0, -3}) =>
        Cardinality(Inbound(d, x) \cap DoneTasks(step.obs)) >= Need(d, x)
T_C02_succeeded(step) ==
  step.obs.wf = "succeeded" =>
    /\ \A i \in 1..Len(step.obs.seq) : step.obs.seq[i].st \in Completed
    /\ step.obs.infl = << >>
    /\ step.obs.offers = << >>
T_C03_rest(m1, step) ==
  (step.obs.q /\ step.ret = "ok" /\ step.obs.infl = << >> /\ step.obs.dorm = << >> /\ step.obs.offers = << >>
     /\ m1.started) => step.obs.wf \in Resting
T_C04_no_offer(d, m0, step) ==
  (m0.term # "none" /\ step.obs.q) =>
     \A i \in 1..Len(step.obs.offers) : step.obs.wf = "failed" /\ step.obs.offers[i].id \in CleanupSet(d)
T_C10_no_offer(m1, step) == (m1.cancelReq /\ step.obs.q) => step.obs.offers = << >>
T_C10_status(m1, step) ==
  m1.cancelReq =>
     \/ step.obs.wf = "canceling" /\ step.obs.infl # << >>
     \/ step.obs.wf = "canceled" /\ step.obs.infl = << >>
     \/ step.obs.wf = "failed" /\ HasErr(step.obs, "expr")
T_C15_internal(t, step) == step.ret = "ok" \/ step.ret \in OkRets(t)

TFailing(t, d, m0, m1, prev, step) ==
  IF step.call.op = "tamper" THEN {}
  ELSE
    FP("C01", "C01_t_known", C01_offer_known(d, step)) \cup
    FP("C01", "C01_t_justified", T_C01_justified(d, step)) \cup
    FP("C07", "C07_t_need", T_C07_need(d, step)) \cup
    FP("C02", "C02_t_succeeded", T_C02_succeeded(step)) \cup
    FP("C02", "C02_t_rest_no_flight", C02_rest_no_flight(step)) \cup
    FP("C02", "C02_t_ing_has_flight", C02_ing_has_flight(step)) \cup
    FP("C03", "C03_t_rest", T_C03_rest(m1, step)) \cup
    FP("C04", "C04_t_no_offer", T_C04_no_offer(d, m0, step)) \cup
    FP("C04", "C04_t_final", C04_final(m0, prev, step)) \cup
    FP("C04", "C04_t_reject_pure", C04_reject_pure(prev, step)) \cup
    FP("C04", "C04_t_forbidden_rejected", C04_forbidden_rejected(prev, step)) \cup
    FP("C09", "C09_t_hold", C09_hold(step)) \cup
    FP("C10", "C10_t_no_offer", T_C10_no_offer(m1, step)) \cup
    FP("C10", "C10_t_status", T_C10_status(m1, step)) \cup
    FP("C15", "C15_t_internal", T_C15_internal(t, step)) \cup
    FP("C11", "C11_t_no_escape", T_C15_internal(t, step)) \cup
    FP("C17", "C17_t_accept", C17_accept(prev, step)) \cup
    FP("C17", "C17_t_reject", C17_reject(prev, step)) \cup
    FP("C17", "C17_t_resuming", C17_resuming(step)) \cup
    FP("C18", "C18_t_seq_prefix", C18_seq_prefix(prev, step)) \cup
    FP("C18", "C18_t_ctxs_prefix", C18_ctxs_prefix(prev, step)) \cup
    FP("C18", "C18_t_routes_prefix", C18_routes_prefix(prev, step)) \cup
    FP("C18", "C18_t_started_fixed", C18_started_fixed(prev, step)) \cup
    FP("C18", "C18_t_decided_fixed", C18_decided_fixed(prev, step)) \cup
    FP("C19", "C19_t_idem", C19_idem(step))

Init == /\ tr \in 1..Len(Batch)
        /\ nd = 0
        /\ m = M0
        /\ bad = {}

Next == /\ bad = {}
        /\ \E i \in 1..Len(KidsOf(tr, nd)) :
             LET k    == KidsOf(tr, nd)[i]
                 d    == Batch[tr].def
                 step == Node(tr, k)
                 prev == IF step.call.op = "tamper" \/ nd = 0 THEN
                            (IF nd = 0 THEN Obs0 ELSE step.obs) ELSE ObsAt(tr, nd)
                 m1   == MStep(m, prev, step)
                 fs   == TFailing(tr, d, m, m1, prev, step)
             IN /\ nd' = k
                /\ tr' = tr
                /\ m' = MLatch(m1, step)
                /\ bad' = {c \in fs : c[1] \in Own(tr)}
                /\ \A c \in fs : PrintT(<<"V", Batch[tr].tid, k, c[2]>>)

Spec == Init /\ [][Next]_vars
=============================================================================
