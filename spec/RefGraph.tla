------------------------------ MODULE RefGraph ------------------------------
(* C14 (a): what the composed graph of a definition must be, declaratively.                   *)
EXTENDS Definition

CmdNodes(d)  == {c \in {"continue", "fail", "noop"} :
                   \E t \in Reachable(d) : \E i \in 1..Len(RawEdges(d, t)) : RawEdges(d, t)[i].dst = c}
RefNodes(d)  == Reachable(d) \cup CmdNodes(d)
RefEdges(d)  == UNION {{LET e == KeyedEdges(d, t)[i] IN
                          [src |-> t, dst |-> e.dst, key |-> e.key, ref |-> e.ti, when |-> e.when] :
                        i \in 1..Len(KeyedEdges(d, t))} : t \in Reachable(d)}
(* -9: no barrier attribute; -1: "*"; 0: a declared join: 0; n *)
RefBarrier(d, t) == IF t \in TaskNames(d) /\ d.tasks[t].join # 0
                    THEN (IF d.tasks[t].join = -2 THEN 0 ELSE d.tasks[t].join) ELSE -9
RefRetry(d, t) ==                     \* [on, count, when, delay]; a retry command overrides the retry spec
  IF t \notin TaskNames(d) THEN [on |-> FALSE, count |-> 0, when |-> [k |-> "default", v |-> "", n |-> 0], delay |-> -1]
  ELSE IF RetryCmd(d, t)
  THEN LET i == CHOOSE i \in 1..Len(d.tasks[t].next) :
                   (\E j \in 1..Len(d.tasks[t].next[i].do) : d.tasks[t].next[i].do[j] = "retry")
                   /\ \A i2 \in 1..Len(d.tasks[t].next) :
                        (\E j \in 1..Len(d.tasks[t].next[i2].do) : d.tasks[t].next[i2].do[j] = "retry") => i2 <= i
       IN [on |-> TRUE, count |-> 3,
           when |-> IF d.tasks[t].next[i].when.k = "always" THEN [k |-> "completed", v |-> "", n |-> 0] ELSE d.tasks[t].next[i].when,
           delay |-> -1]
  ELSE d.tasks[t].retry
RefRoots(d)  == {t \in RefNodes(d) : ~\E e \in RefEdges(d) : e.dst = t}

=============================================================================
