------------------------------- MODULE Props -------------------------------
(* The listed properties as monitors over *observables only*.                               *)
(*                                                                                          *)
(* A step is  [call, ret, obs]  : one API call, how it returned, and the projection of the   *)
(* conductor (and of the provider's bookkeeping) after it.  `prev` is the projection before. *)
(*   HInit(d)                       initial history                                          *)
(*   HStep(d, h, prev, step)        history after the step (total)                           *)
(*   Failing(d, h0, h1, prev, step) names of the clauses that are false at this step          *)
(* The same three operators are used by MC*.tla (on Observe(state) of Spec B) and by         *)
(* Trace.tla (on steps recorded from the real conductor).                                    *)
EXTENDS Definition, Lifecycle

Rejections == {"InvalidWorkflowStatusTransition", "WorkflowIsActiveAndNotRerunableError",
               "InvalidTaskRerunRequest"}
Resting    == {"succeeded", "failed", "canceled", "paused"}
Terminal   == {"succeeded", "failed", "canceled"}


(* ---------- reading the projection ---------------------------------------------------------- *)
HasRec(obs, t, r) == Rid(t, r) \in DOMAIN obs.ptr
RecIdx(obs, t, r) == obs.ptr[Rid(t, r)] + 1
Rec(obs, t, r)    == obs.seq[RecIdx(obs, t, r)]
RecSt(obs, t, r)  == IF HasRec(obs, t, r) THEN Rec(obs, t, r).st ELSE "none"

CtxOf(obs, idxs) ==                                  \* conducting.py get_task_context
  LET has(k, v) == v \in DOMAIN obs.ctxs[idxs[k] + 1]
      vars == UNION {DOMAIN obs.ctxs[idxs[k] + 1] : k \in 1..Len(idxs)}
  IN [v \in vars |-> obs.ctxs[idxs[Max({k \in 1..Len(idxs) : has(k, v)})] + 1][v]]

Persisted(obs) == <<obs.wf, obs.seq, obs.staged, obs.ctxs, obs.routes, obs.ptr, obs.errs,
                    obs.hasout, obs.out, obs.reruns>>

StagedReady(obs) == {i \in 1..Len(obs.staged) : obs.staged[i].ready /\ ~obs.staged[i].completed}
(* nothing outstanding at the provider (in flight, or dormant and awaiting an answer/resume) and nothing on offer *)
Quiescent(step)  == step.obs.q /\ step.obs.infl = << >> /\ step.obs.dorm = << >> /\ step.obs.offers = << >>
HasErr(obs, cls) == \E i \in 1..Len(obs.errs) : obs.errs[i].cls = cls
ErrOn(obs, cls, t) == \E i \in 1..Len(obs.errs) : obs.errs[i].cls = cls /\ obs.errs[i].task = t
NewErrs(prev, obs, cls) == {i \in (Len(prev.errs) + 1)..Len(obs.errs) : obs.errs[i].cls = cls}

(* Decisions the definition prescribes for a completed execution of t with status st, result  *)
(* res and context ctx: per edge "T"/"F"/"E" and whether its publish renders.                  *)
Decide(d, t, st, res, ctx) ==
  LET es == Edges(d, t) IN
  [i \in 1..Len(es) |->
     LET c == EvalCond(es[i].when, st, res, ctx)
         p == IF c = "T" THEN PubRoll(es[i].pub, 1, res, ctx) ELSE [ok |-> TRUE, ctx |-> ctx, new |-> << >>]
     IN [dst |-> es[i].dst, key |-> es[i].key, ti |-> es[i].ti, pub |-> es[i].pub, c |-> c,
         pubok |-> p.ok, new |-> p.new, sat |-> c = "T" /\ p.ok]]

(* the context entries one completion appends: one per satisfied (transition, target) pair as the code does  *)
(* it, or one per satisfied transition shared by its targets (the intended design) - the properties do not  *)
(* prescribe the number of copies, only what every target sees                                              *)
NonEmpty(f) == DOMAIN f # {}
PubPerEdge(dx) == SelectSeq([i \in 1..Len(dx) |-> IF dx[i].sat THEN dx[i].new ELSE << >>], NonEmpty)
PubPerTransition(dx) ==
  SelectSeq([i \in 1..Len(dx) |-> IF dx[i].sat /\ ~(\E j \in 1..(i - 1) : dx[j].sat /\ dx[j].ti = dx[i].ti)
                                   THEN dx[i].new ELSE << >>], NonEmpty)
SatTargets(dec) == {dec[i].dst : i \in {j \in 1..Len(dec) : dec[j].sat}}
ExprTrouble(dec) == \E i \in 1..Len(dec) : dec[i].c = "E" \/ ~dec[i].pubok

(* ---------- C06: bindings ------------------------------------------------------------------- *)
(* A binding is [val, pid, hist]: the value, who published it (record index, transition index;  *)
(* <<0,0>> for input/vars) and the <<pid, val>> pairs the publisher itself had received.        *)
Bind(v, pid, hist) == [val |-> v, pid |-> pid, hist |-> hist]
Proj(c) == [v \in DOMAIN c |-> c[v].val]
RootCtx(d) ==
  LET rv == [i \in 1..Len(d.vars) |-> d.vars[i]] IN
  LET RECURSIVE Roll(_, _)
      Roll(i, c) == IF i > Len(rv) THEN c
                    ELSE LET x == EvalVal(rv[i][2], <<2>>, Proj(c)) IN
                         IF x = <<-1>> THEN Roll(i + 1, c) ELSE Roll(i + 1, (rv[i][1] :> Bind(x, <<0, 0>>, {})) @@ c)
  IN Roll(1, << >>)
(* statement's merge rule: a = earlier arrival, b = later arrival *)
MergeBind(a, b) ==
  IF a.pid = b.pid THEN a
  ELSE IF \E hv \in a.hist : hv[1] = b.pid THEN a          \* b merely inherited an older value
  ELSE b                                                    \* b superseded a, or independent: later arrival wins
MergeCtx(a, b) ==
  [v \in DOMAIN a \cup DOMAIN b |->
     IF v \notin DOMAIN b THEN a[v] ELSE IF v \notin DOMAIN a THEN b[v] ELSE MergeBind(a[v], b[v])]
(* context after the publishes of one satisfied transition (pid = <<publisher record, transition>>) *)
RECURSIVE PubBind(_, _, _, _, _)
PubBind(pub, i, res, c, pid) ==
  IF i > Len(pub) THEN c
  ELSE LET x == EvalVal(pub[i][2], res, Proj(c))
           v == pub[i][1]
       IN IF x = <<-1>> THEN PubBind(pub, i + 1, res, c, pid)
          ELSE PubBind(pub, i + 1, res,
                       (v :> Bind(x, pid, IF v \in DOMAIN c THEN c[v].hist \cup {<<c[v].pid, c[v].val>>} ELSE {})) @@ c, pid)
RemoveOne(sq, x) == LET m == {i \in 1..Len(sq) : sq[i] = x} IN
                    IF m = {} THEN sq ELSE RemoveAt(sq, CHOOSE i \in m : \A j \in m : i <= j)

(* ---------- history ------------------------------------------------------------------------- *)
NoGen == [arr |-> {}, fired |-> FALSE, started |-> FALSE, ctx |-> << >>]

HInit(d) ==
  [ started  |-> FALSE,
    tok      |-> [t \in TaskNames(d) |-> 0],       \* justified, not yet started
    just     |-> [t \in TaskNames(d) |-> 0],       \* justified in total
    execd    |-> [t \in TaskNames(d) |-> 0],       \* started in total
    gen      |-> << >>,                            \* join instance (Rid) -> [arr, fired]
    doomed   |-> FALSE,                            \* unhandled failure / fail command / runtime error
    cleanup  |-> {},                               \* tasks listed beside a fail command
    cleanupDue |-> {},                             \* ... by the completion just processed (checked at the next query)
    term     |-> "none",                           \* first terminal status
    pauseReq |-> FALSE, cancelReq |-> FALSE,
    pauseCause |-> FALSE,
    resumed  |-> FALSE,                            \* the last call was an accepted resume
    resumedByRerun |-> FALSE,                      \* the last call was an accepted rerun
    rerun    |-> FALSE,                            \* an accepted rerun happened (C17 owns what follows)
    rerunReq |-> {},                               \* <<task, route>> asked to run again by the last rerun
    retried  |-> FALSE,                            \* this step's completion was retried
    compl    |-> << >>,                            \* this step's completion: [] or [t, r, st, dec]
    ectx     |-> [t \in TaskNames(d) |-> << >>],   \* C06: expected contexts of the outstanding tokens of t
    xctx     |-> << >>,                            \* C06: execution (Rid) -> expected context it runs with
    tctx     |-> << >>,                            \* C06: expected contexts of terminal executions, in completion order
    its      |-> << >>,                            \* with-items execution (Rid) -> [started, st]
    att      |-> << >>,                            \* (Rid) -> attempts started in the current visit
    fin      |-> {} ]                              \* indices of records whose decisions are final

GenOf(h, k) == IF k \in DOMAIN h.gen THEN h.gen[k] ELSE NoGen
NoIts == [started |-> {}, st |-> << >>]
ItsOf(h, k) == IF k \in DOMAIN h.its THEN h.its[k] ELSE NoIts
AttOf(h, k) == IF k \in DOMAIN h.att THEN h.att[k] ELSE 0

(* One arrival of inbound task p at join instance k = Rid(j, r). A second arrival of the same  *)
(* inbound task opens a new generation (loops).                                                *)
Arrive(d, h, j, r, p, ec) ==
  LET k  == Rid(j, r)
      g0 == GenOf(h, k)
      g1 == IF p \in g0.arr
            THEN (IF h.rerun
                  \* after a rerun an inbound task that runs again re-arms the join, the other
                  \* branches' earlier arrivals stand (whatever follows from the rerun task runs again)
                  THEN [arr |-> g0.arr, fired |-> FALSE, started |-> FALSE, ctx |-> MergeCtx(g0.ctx, ec)]
                  ELSE [arr |-> {p}, fired |-> FALSE, started |-> FALSE, ctx |-> ec])
            ELSE [arr |-> g0.arr \cup {p}, fired |-> g0.fired, started |-> g0.started,
                  ctx |-> IF g0.arr = {} THEN ec ELSE MergeCtx(g0.ctx, ec)]
      fire == ~g1.fired /\ Cardinality(g1.arr) >= Need(d, j)
      g2 == [g1 EXCEPT !.fired = @ \/ fire]
  IN [h EXCEPT !.gen = (k :> g2) @@ @,
               !.tok[j]  = IF fire THEN @ + 1 ELSE @,
               !.just[j] = IF fire THEN @ + 1 ELSE @]

(* src = <<task, route>> of the completed execution, xc its expected context, res its result,  *)
(* li the index of its record (publisher id)                                                   *)
RECURSIVE Grant(_, _, _, _, _, _, _, _)
Grant(d, h, dec, i, src, xc, res, li) ==
  IF i > Len(dec) THEN h
  ELSE LET e  == dec[i]
           ec == PubBind(e.pub, 1, res, xc, <<li, e.ti>>)
       IN
       IF ~e.sat THEN Grant(d, h, dec, i + 1, src, xc, res, li)
       ELSE IF e.dst \in Cmds THEN
              Grant(d, [h EXCEPT !.doomed = @ \/ e.dst = "fail", !.tctx = Append(@, ec)],
                    dec, i + 1, src, xc, res, li)
       ELSE IF IsJoin(d, e.dst) THEN
              \* several satisfied transitions of one completion into one join are one arrival
              \* (their contexts are all merged)
              IF \E q \in 1..(i - 1) : dec[q].sat /\ dec[q].dst = e.dst
              THEN LET k == Rid(e.dst, src[2]) IN
                   Grant(d, [h EXCEPT !.gen = (k :> [GenOf(h, k) EXCEPT !.ctx = MergeCtx(@, ec)]) @@ @],
                         dec, i + 1, src, xc, res, li)
              ELSE Grant(d, Arrive(d, h, e.dst, src[2], src[1], ec), dec, i + 1, src, xc, res, li)
       ELSE Grant(d, [h EXCEPT !.tok[e.dst] = @ + 1, !.just[e.dst] = @ + 1, !.ectx[e.dst] = Append(@, ec)],
                  dec, i + 1, src, xc, res, li)

XctxOf(h, k) == IF k \in DOMAIN h.xctx THEN h.xctx[k] ELSE << >>

IsCompletion(prev, step) ==
  /\ step.call.op \in {"report", "start"} /\ step.ret = "ok"
  /\ HasRec(step.obs, step.call.task, step.call.route)
  /\ RecSt(step.obs, step.call.task, step.call.route) \in Completed
  /\ RecSt(prev, step.call.task, step.call.route) \notin Completed

IsRetried(prev, step) ==
  /\ step.call.op = "report" /\ step.ret = "ok"
  /\ RecSt(step.obs, step.call.task, step.call.route) = "retrying"
  /\ RecSt(prev, step.call.task, step.call.route) # "retrying"

IsNewExec(prev, step) ==
  /\ step.call.op = "start" /\ step.ret = "ok"
  /\ \/ Len(step.obs.seq) > Len(prev.seq)
     \/ RecSt(prev, step.call.task, step.call.route) \in {"retrying", "null"}   \* "null": record added by a rerun

\* (a with-items task over an empty list completes with its own, empty, result)
TaskResult(d, step) == IF HasItems(d, step.call.task) /\ d.tasks[step.call.task].items > 0 THEN step.call.acc ELSE step.call.res

HStepCore(d, h, prev, step) ==
  LET c   == step.call
      obs == step.obs
      h0  == [h EXCEPT !.retried = FALSE, !.compl = << >>, !.resumed = FALSE,
                       !.resumedByRerun = (c.op = "rerun" /\ step.ret = "ok")]
  IN
  CASE c.op = "new" ->
         IF obs.wf \in Abended THEN [h0 EXCEPT !.doomed = TRUE]
         ELSE [h0 EXCEPT !.tok  = [t \in TaskNames(d) |-> IF t \in Roots(d) THEN 1 ELSE 0],
                         !.just = [t \in TaskNames(d) |-> IF t \in Roots(d) THEN 1 ELSE 0],
                         !.ectx = [t \in TaskNames(d) |-> IF t \in Roots(d) THEN <<RootCtx(d)>> ELSE << >>]]
    [] c.op = "req" ->
         IF step.ret # "ok" THEN h0
         ELSE [h0 EXCEPT !.started   = @ \/ c.st = "running",
                         !.resumed   = h.pauseReq /\ c.st \in {"resuming", "running"},
                         !.pauseReq  = (@ \/ c.st \in {"pausing", "paused"}) /\ c.st \notin {"resuming", "running"},
                         !.pauseCause = (@ \/ c.st \in {"pausing", "paused"}) /\ c.st \notin {"resuming", "running"},
                         !.cancelReq = @ \/ c.st \in {"canceling", "canceled"},
                         !.doomed    = @ \/ c.st = "failed"]
    [] c.op \in {"start", "report"} /\ c.task \notin TaskNames(d) -> h0   \* an engine command offered as a task (C01_offer_known)
    [] c.op = "start" ->
         IF IsNewExec(prev, step)
         THEN [h0 EXCEPT !.tok[c.task]   = IF @ > 0 THEN @ - 1 ELSE 0,
                         !.execd[c.task] = @ + 1,
                         !.xctx = (Rid(c.task, c.route) :>
                                     (IF IsJoin(d, c.task) THEN GenOf(h0, Rid(c.task, c.route)).ctx
                                      ELSE LET seen == CtxOf(obs, Rec(obs, c.task, c.route).ctxin)
                                               m == {i \in 1..Len(h0.ectx[c.task]) : Proj(h0.ectx[c.task][i]) = seen}
                                           IN IF h0.ectx[c.task] = << >> THEN << >>
                                              ELSE IF m = {} THEN h0.ectx[c.task][1]
                                              ELSE h0.ectx[c.task][CHOOSE i \in m : \A j \in m : i <= j])) @@ @,
                         !.ectx[c.task] =
                            IF IsJoin(d, c.task) \/ @ = << >> THEN @
                            ELSE LET seen == CtxOf(obs, Rec(obs, c.task, c.route).ctxin)
                                     m == {i \in 1..Len(@) : Proj(@[i]) = seen}
                                 IN IF m = {} THEN Tail(@) ELSE RemoveAt(@, CHOOSE i \in m : \A j \in m : i <= j),
                         !.its = (Rid(c.task, c.route) :>
                                    (IF h0.rerun /\ <<c.task, c.route>> \in h0.rerunReq /\ c.item >= 0
                                        /\ RecSt(prev, c.task, c.route) # "retrying"    \* a retry attempt starts afresh
                                     THEN [ItsOf(h0, Rid(c.task, c.route)) EXCEPT !.started = @ \cup {c.item}]
                                     ELSE [started |-> IF c.item >= 0 THEN {c.item} ELSE {}, st |-> << >>])) @@ @,
                         !.att = (Rid(c.task, c.route) :>
                                    IF RecSt(prev, c.task, c.route) = "retrying" THEN AttOf(h0, Rid(c.task, c.route)) + 1 ELSE 1) @@ @,
                         !.gen = IF IsJoin(d, c.task)
                                 THEN (Rid(c.task, c.route) :> [GenOf(h0, Rid(c.task, c.route)) EXCEPT !.started = TRUE]) @@ @
                                 ELSE @]
         ELSE IF step.ret = "ok" /\ c.item >= 0
         THEN [h0 EXCEPT !.its = (Rid(c.task, c.route) :> [ItsOf(h0, Rid(c.task, c.route)) EXCEPT !.started = @ \cup {c.item}]) @@ @]
         ELSE h0
    [] c.op = "report" ->
         LET hA == [h0 EXCEPT !.pauseCause = @ \/ c.st \in {"pending", "paused"}]
             h1 == IF c.item >= 0
                   THEN [hA EXCEPT !.its = (Rid(c.task, c.route) :>
                            [ItsOf(hA, Rid(c.task, c.route)) EXCEPT !.st = (c.item :> c.st) @@ @]) @@ @]
                   ELSE hA
         IN
         IF IsRetried(prev, step)
         THEN [h1 EXCEPT !.tok[c.task] = @ + 1, !.just[c.task] = @ + 1, !.retried = TRUE,
                         !.ectx[c.task] = IF IsJoin(d, c.task) THEN @ ELSE Append(@, XctxOf(h1, Rid(c.task, c.route))),
                         \* a retried join instance is armed again (same generation)
                         !.gen = IF IsJoin(d, c.task)
                                 THEN (Rid(c.task, c.route) :> [GenOf(h1, Rid(c.task, c.route)) EXCEPT !.started = FALSE]) @@ @
                                 ELSE @]
         ELSE IF IsCompletion(prev, step)
         THEN LET rec == Rec(obs, c.task, c.route)
                  dec == Decide(d, c.task, rec.st, TaskResult(d, step), CtxOf(obs, rec.ctxin))
                  unh == rec.st \in Abended /\ (SatTargets(dec) \ {"continue"}) = {}
                  xc  == XctxOf(h1, Rid(c.task, c.route))
                  hT  == IF SatTargets(dec) = {} THEN [h1 EXCEPT !.tctx = Append(@, xc)] ELSE h1
                  h2  == Grant(d, hT, dec, 1, <<c.task, c.route>>, xc, TaskResult(d, step), RecIdx(obs, c.task, c.route))
              IN [h2 EXCEPT !.doomed  = @ \/ unh \/ ExprTrouble(dec),
                            !.cleanup = IF "fail" \in SatTargets(dec)
                                        THEN @ \cup (SatTargets(dec) \ Cmds) ELSE @,
                            !.cleanupDue = IF "fail" \in SatTargets(dec)
                                           THEN {x \in SatTargets(dec) \ Cmds : ~IsJoin(d, x) /\ ~HasItems(d, x)} ELSE {},
                            !.compl   = <<[t |-> c.task, r |-> c.route, st |-> rec.st, dec |-> dec, xc |-> xc,
                                           res |-> TaskResult(d, step)]>>]
         ELSE h1
    [] c.op = "query" -> [h0 EXCEPT !.cleanupDue = {}]
    [] c.op = "rerun" ->
         IF step.ret # "ok" THEN h0
         ELSE \* requested executions (default: abended terminal ones) become due again
              LET req == IF Len(c.arg) > 0 THEN {<<c.arg[i][1], c.arg[i][2]>> : i \in 1..Len(c.arg)}
                         ELSE {<<prev.seq[i].id, prev.seq[i].route>> : i \in {j \in 1..Len(prev.seq) :
                                   prev.seq[j].term /\ prev.seq[j].st \in Abended /\ prev.seq[j].id \in TaskNames(d)}}
                  reqT(t) == Cardinality({x \in req : x[1] = t})
                  plain(t) == Cardinality({x \in req : x[1] = t})
                  resetOf(x) == \E i \in 1..Len(c.arg) : c.arg[i][1] = x[1] /\ c.arg[i][2] = x[2] /\ c.arg[i][3] = 1
                  keep(x) == LET it == ItsOf(h0, Rid(x[1], x[2])) IN
                             IF resetOf(x) THEN NoIts
                             ELSE [started |-> {i \in it.started : i \in DOMAIN it.st /\ it.st[i] \notin Abended},
                                   st |-> [i \in {j \in DOMAIN it.st : it.st[j] \notin Abended} |-> it.st[i]]]
              IN [h0 EXCEPT !.rerun = TRUE, !.doomed = FALSE, !.term = "none", !.cancelReq = FALSE, !.pauseReq = FALSE,
                            !.pauseCause = FALSE, !.cleanup = {},
                            !.rerunReq = req,
                            !.tok  = [t \in TaskNames(d) |-> @[t] + plain(t)],
                            !.just = [t \in TaskNames(d) |-> @[t] + plain(t)],
                            !.its = [k \in DOMAIN @ \cup {Rid(x[1], x[2]) : x \in {y \in req : HasItems(d, y[1])}} |->
                                       IF \E x \in req : HasItems(d, x[1]) /\ Rid(x[1], x[2]) = k
                                       THEN keep(CHOOSE x \in req : Rid(x[1], x[2]) = k) ELSE @[k]],
                            !.ectx = [t \in TaskNames(d) |->
                                        @[t] \o SetToSeq({XctxOf(h0, Rid(x[1], x[2])) : x \in {y \in req : y[1] = t}})]]
    [] OTHER -> h0

(* a run-time expression error recorded by this call dooms the workflow as well *)
HStep(d, h, prev, step) ==
  [HStepCore(d, h, prev, step) EXCEPT
     \* ... and so does an exception that escapes a call other than a rejected request (a run-time error)
     !.doomed = @ \/ NewErrs(prev, step.obs, "expr") # {}
                  \/ (step.ret # "ok" /\ ~(step.call.op \in {"req", "rerun"} /\ step.ret \in Rejections)),
     \* the workflow is (still) paused while some task execution is pending or paused
     !.pauseCause = @ \/ (step.obs.wf = "paused" /\ \E i \in 1..Len(step.obs.seq) : step.obs.seq[i].st \in DormantSt)]

(* the terminal-status latch is updated after the clauses of the step have been evaluated     *)
HLatch(h, step) ==
  [h EXCEPT !.term = IF @ = "none" /\ step.obs.wf \in Terminal THEN step.obs.wf ELSE @]

(* ---------- clauses ------------------------------------------------------------------------- *)
OpenRec(obs, t, r) == HasRec(obs, t, r) /\ Rec(obs, t, r).st \in (ActiveSt \cup DormantSt)

(* C01: offers are covered by tokens; starts consume them; success leaves none. *)
C01_offer_justified(d, h1, step) ==
  step.obs.q =>
    \A t \in TaskNames(d) :
      Cardinality({i \in 1..Len(step.obs.offers) :
                     step.obs.offers[i].id = t /\ ~OpenRec(step.obs, t, step.obs.offers[i].route)})
        <= h1.tok[t]
(* nothing lost: while the workflow is running every justified, not yet started execution is *)
(* on offer (this is also "resume continues with precisely the work that was held back")      *)
NewOffers(step, t) == {i \in 1..Len(step.obs.offers) :
                         step.obs.offers[i].id = t /\ ~OpenRec(step.obs, t, step.obs.offers[i].route)}
C01_offer_complete(d, h1, step) ==
  (step.obs.q /\ step.obs.wf \in {"running", "resuming"} /\ ~h1.rerun) =>
     \A t \in TaskNames(d) : Cardinality(NewOffers(step, t)) = h1.tok[t]
(* the clean-up tasks listed beside a fail command are offered although the workflow failed *)
C01_cleanup_offered(d, h0, step) ==
  (step.obs.q /\ step.obs.wf = "failed" /\ ~h0.rerun) =>
     \A t \in h0.cleanupDue : NewOffers(step, t) # {}
\* an execution that is already open is not offered again (a with-items execution is: its next items)
C01_no_reoffer(d, step) ==
  step.obs.q => \A i \in 1..Len(step.obs.offers) :
     LET o == step.obs.offers[i] IN
     (o.id \in TaskNames(d) /\ ~HasItems(d, o.id)) => ~OpenRec(step.obs, o.id, o.route)
C01_offer_known(d, step) ==
  \A i \in 1..Len(step.obs.offers) : step.obs.offers[i].id \in TaskNames(d)
C01_start_consumes(d, h0, prev, step) ==
  (IsNewExec(prev, step) /\ ~h0.rerun) => step.call.task \in TaskNames(d) /\ h0.tok[step.call.task] > 0
C01_success_exact(d, h1, step) ==
  (step.obs.wf = "succeeded" /\ ~h1.rerun) => \A t \in TaskNames(d) : h1.tok[t] = 0
C01_status_truthful(d, prev, step) ==
  (IsCompletion(prev, step) /\ ~HasItems(d, step.call.task) /\ step.call.op = "report") =>
     RecSt(step.obs, step.call.task, step.call.route) =
        (CASE step.call.st = "succeeded" -> "succeeded"
           [] step.call.st \in Abended   -> "failed"
           [] OTHER                      -> step.call.st)
(* the conductor's recorded decisions agree with the definition's conditions on the actual    *)
(* status, result and context                                                                 *)
C01_decisions(d, h1, step) ==
  h1.compl # << >> =>
    LET cm == h1.compl[1]
        rec == Rec(step.obs, cm.t, cm.r)
    IN \A i \in 1..Len(cm.dec) :
         LET tid == Tid(cm.dec[i].dst, cm.dec[i].key) IN
         CASE cm.dec[i].c = "T" -> tid \in DOMAIN rec.next /\ rec.next[tid]
           [] cm.dec[i].c = "F" -> tid \in DOMAIN rec.next /\ ~rec.next[tid]
           [] OTHER -> TRUE

(* C02: the reported status is truthful about the tasks. *)
C02_succeeded(d, h1, step) ==
  step.obs.wf = "succeeded" =>
    /\ \A i \in 1..Len(step.obs.seq) : step.obs.seq[i].st \in Completed
    /\ step.obs.infl = << >>
    /\ StagedReady(step.obs) = {}
    /\ step.obs.offers = << >>
    /\ ~h1.doomed
C02_rest_no_flight(step) == step.obs.wf \in {"paused", "canceled"} => step.obs.infl = << >>
C02_ing_has_flight(step) == step.obs.wf \in {"pausing", "canceling"} => step.obs.infl # << >>
C02_doomed(h0, h1, step) ==
  (h1.doomed /\ ~h0.doomed) =>
      step.obs.wf \in {"failed", "canceling", "canceled"}

(* C03: quiescence implies a resting status. *)
C03_rest(h1, step) ==
  (Quiescent(step) /\ h1.started) =>
     /\ step.obs.wf \in Resting
     /\ step.obs.wf = "paused" =>
          \/ h1.pauseCause
          \/ \E i \in 1..Len(step.obs.seq) : step.obs.seq[i].st \in DormantSt

(* C04: terminal statuses are final. *)
C04_no_offer(h0, step) ==
  (h0.term # "none" /\ step.obs.q) =>
     \A i \in 1..Len(step.obs.offers) :
        step.obs.wf = "failed" /\ step.obs.offers[i].id \in h0.cleanup
C04_absorb(h0, step) == (h0.term # "none" /\ step.call.op = "report") => step.ret = "ok"
C04_final(h0, prev, step) ==
  (h0.term # "none" /\ prev.wf \in Terminal) =>
     \/ step.obs.wf = prev.wf
     \/ prev.wf = "succeeded" /\ step.obs.wf = "failed" /\ step.call.op = "render"
          /\ NewErrs(prev, step.obs, "expr") # {}
     \/ step.call.op = "rerun" /\ step.ret = "ok"
     \* the lifecycle's own row succeeded -> failed, which is how the render failure is signalled
     \/ prev.wf = "succeeded" /\ step.obs.wf = "failed" /\ step.call.op = "req"
          /\ step.call.st = "failed" /\ step.ret = "ok"
C04_reject_pure(prev, step) ==
  (step.call.op \in {"req", "rerun"} /\ step.ret # "ok") => Persisted(step.obs) = Persisted(prev)
(* a status request for which the lifecycle has no row in a resting status is rejected with an error *)
ActiveIn(obs) == \E k \in DOMAIN obs.ptr : obs.seq[obs.ptr[k] + 1].st \in ActiveSt
ReqEvent(obs, st) ==
  LET base == "workflow_" \o st IN
  IF st \in {"pausing", "paused", "canceling", "canceled"}
  THEN base \o (IF ActiveIn(obs) THEN "_workflow_active" ELSE "_workflow_dormant") ELSE base
C04_forbidden_rejected(prev, step) ==
  (step.call.op = "req" /\ prev.wf \in DOMAIN WfT /\ step.call.st # prev.wf
     /\ ~WfHasRow(prev.wf, ReqEvent(prev, step.call.st))
     /\ ~WfHasRow(prev.wf, ReqEvent(prev, step.call.st) \o "_workflow_completed")) => step.ret # "ok"
C04_reject_class(step) ==
  (step.call.op \in {"req", "rerun"} /\ step.ret # "ok") => step.ret \in Rejections

(* C06: a task sees exactly the variables published by its causal ancestors. *)
Candidates(d, h1, o) == IF IsJoin(d, o.id) THEN {GenOf(h1, Rid(o.id, o.route)).ctx}
                        ELSE {h1.ectx[o.id][i] : i \in 1..Len(h1.ectx[o.id])}
C06_ctx(d, h1, step) ==
  (step.obs.q /\ ~h1.rerun) =>
     \A i \in 1..Len(step.obs.offers) :
        LET o == step.obs.offers[i] IN
        (o.id \in TaskNames(d) /\ ~OpenRec(step.obs, o.id, o.route)) =>
            o.ctx \in {Proj(c) : c \in Candidates(d, h1, o)}
C06_record(d, h0, h1, prev, step) ==
  (IsNewExec(prev, step) /\ ~h1.rerun /\ step.call.task \in TaskNames(d)) =>
     CtxOf(step.obs, Rec(step.obs, step.call.task, step.call.route).ctxin)
        = Proj(XctxOf(h1, Rid(step.call.task, step.call.route)))
(* decisions and published values agree with the definition evaluated on the expected context *)
C06_eval(d, h1, step) ==
  (h1.compl # << >> /\ ~h1.rerun) =>
     LET cm  == h1.compl[1]
         rec == Rec(step.obs, cm.t, cm.r)
         dx  == Decide(d, cm.t, cm.st, cm.res, Proj(cm.xc))
     IN \A i \in 1..Len(dx) :
          LET tid == Tid(dx[i].dst, dx[i].key) IN
          CASE dx[i].c = "T" -> tid \in DOMAIN rec.next /\ rec.next[tid]
            [] dx[i].c = "F" -> tid \in DOMAIN rec.next /\ ~rec.next[tid]
            [] OTHER -> TRUE
C06_published(d, h1, prev, step) ==
  (h1.compl # << >> /\ ~h1.rerun) =>
     LET cm  == h1.compl[1]
         dx  == Decide(d, cm.t, cm.st, cm.res, Proj(cm.xc))
     IN SubSeq(step.obs.ctxs, Len(prev.ctxs) + 1, Len(step.obs.ctxs)) \in {PubPerEdge(dx), PubPerTransition(dx)}
(* output: for variables whose bindings over the terminal contexts are totally ordered *)
PidsOf(b) == {hv[1] : hv \in b.hist}
OrderedB(a, b) == a.pid = b.pid \/ a.pid \in PidsOf(b) \/ b.pid \in PidsOf(a)
Unambiguous(tc, v) ==
  \A i, j \in 1..Len(tc) : (v \in DOMAIN tc[i] /\ v \in DOMAIN tc[j]) => OrderedB(tc[i][v], tc[j][v])
RECURSIVE MergeAll(_, _, _)
MergeAll(tc, i, acc) == IF i > Len(tc) THEN acc ELSE MergeAll(tc, i + 1, MergeCtx(acc, tc[i]))
C06_output(d, h1, prev, step) ==
  (step.call.op = "render" /\ step.ret = "ok" /\ ~prev.hasout /\ prev.wf = "succeeded" /\ ~h1.rerun
     /\ h1.tctx # << >>) =>
     LET m == Proj(MergeAll(h1.tctx, 1, << >>)) IN
     \A k \in 1..Len(d.output) :
        LET o == d.output[k][1]  e == d.output[k][2] IN
        (\A v \in DepVar(e) : Unambiguous(h1.tctx, v)) =>
           LET x == EvalVal(e, <<2>>, m) IN
           IF x = <<-1>> THEN o \notin DOMAIN step.obs.out
           ELSE o \in DOMAIN step.obs.out /\ step.obs.out[o] = x

(* C07: joins. *)
C07_safe(d, h0, prev, step) ==
  (IsNewExec(prev, step) /\ IsJoin(d, step.call.task)) =>
     /\ h0.tok[step.call.task] > 0
     /\ GenOf(h0, Rid(step.call.task, step.call.route)).fired \/ h0.rerun
(* one execution per satisfaction of the barrier: an offered join instance has fired and has  *)
(* not been started yet in this generation                                                    *)
C07_once(d, h1, step) ==
  step.obs.q =>
    \A i \in 1..Len(step.obs.offers) :
       LET o == step.obs.offers[i] IN
       (IsJoin(d, o.id) /\ ~OpenRec(step.obs, o.id, o.route) /\ ~h1.rerun) =>
          LET g == GenOf(h1, Rid(o.id, o.route)) IN g.fired /\ ~g.started
PartialJoins(d, h) ==
  {k \in DOMAIN h.gen : ~h.gen[k].fired /\ h.gen[k].arr # {}}
C07_unreachable(d, h1, step) ==
  (Quiescent(step) /\ h1.started /\ ~h1.doomed /\ ~h1.rerun /\ PartialJoins(d, h1) # {}
     /\ step.obs.wf \notin {"paused", "canceled"}) =>
        step.obs.wf = "failed" /\ HasErr(step.obs, "unreachable_join")
C07_not_succeeded(d, h1, step) ==
  (step.obs.wf = "succeeded" /\ ~h1.rerun) => PartialJoins(d, h1) = {}

(* C09: pause holds everything back and reports paused exactly when drained. *)
C09_hold(step) == (step.obs.q /\ step.obs.wf \in {"pausing", "paused"}) => step.obs.offers = << >>
C09_paused_when_drained(h1, step) ==
  (h1.pauseReq /\ step.obs.dorm = << >>) =>
     /\ step.obs.wf \notin {"running", "resuming", "succeeded"}
     /\ step.obs.wf \in {"pausing", "paused"} => (step.obs.wf = "paused" <=> step.obs.infl = << >>)
C09_resume_work(d, h0, h1, step) ==
  (step.obs.q /\ h0.resumed /\ step.obs.wf \in {"running", "resuming"} /\ ~h1.rerun) =>
     \A t \in TaskNames(d) : Cardinality(NewOffers(step, t)) = h1.tok[t]

(* C10: cancellation stops scheduling and ends in canceled. *)
C10_no_offer(h1, step) == (h1.cancelReq /\ step.obs.q) => step.obs.offers = << >>
C10_status(h1, step) ==
  h1.cancelReq =>
     \/ step.obs.wf = "canceling" /\ step.obs.infl # << >>
     \/ step.obs.wf = "canceled" /\ step.obs.infl = << >>
     \/ step.obs.wf = "failed" /\ HasErr(step.obs, "expr")
C10_output(d, prev, step) ==
  (step.call.op = "render" /\ prev.wf = "canceled") =>
     /\ step.obs.wf = "canceled"
     \* (an output error that repeats an already logged one adds no new entry)
     /\ (Len(d.output) > 0 /\ ~HasErr(step.obs, "expr")) => step.obs.hasout

(* C11: run-time expression errors are contained, recorded and fail the workflow. *)
\* (a documented rejection answers a request; a report, a query or a rendering never raises at all)
C11_no_escape(step) == step.ret = "ok" \/ (step.call.op \in {"req", "rerun"} /\ step.ret \in Rejections)
ErrNames(obs, idxs, t, tid) == \E i \in idxs : obs.errs[i].task = t /\ (tid = "none" \/ obs.errs[i].tr = tid)
(* a failing condition or publish of a completed task is recorded with the task and transition *)
C11_recorded_transition(d, h1, prev, step) ==
  h1.compl # << >> =>
     LET cm == h1.compl[1] IN
     \A i \in 1..Len(cm.dec) :
        (cm.dec[i].c = "E" \/ ~cm.dec[i].pubok) =>
           ErrNames(step.obs, NewErrs(prev, step.obs, "expr") \cup {k \in 1..Len(prev.errs) : prev.errs[k].cls = "expr"},
                    cm.t, Tid(cm.dec[i].dst, cm.dec[i].key))
(* a task on offer whose action / input / items / concurrency / delay cannot be rendered *)
RenderBad(d, t) == t \in TaskNames(d) /\ d.tasks[t].bad # ""
C11_recorded_render(d, h0, prev, step) ==
  (step.obs.q /\ prev.wf \in RunningSt) =>
     \A t \in TaskNames(d) :
        (RenderBad(d, t) /\ \E i \in 1..Len(prev.staged) :
                               prev.staged[i].id = t /\ prev.staged[i].ready /\ ~prev.staged[i].completed) =>
           /\ ErrNames(step.obs, {k \in 1..Len(step.obs.errs) : step.obs.errs[k].cls = "expr"}, t, "none")
           /\ step.obs.offers = << >>
           /\ step.obs.wf = "failed"
(* retry policy expressions are evaluated when the task starts (count, delay) and completes (when) *)
C11_recorded_retry(d, h1, prev, step) ==
  /\ (IsNewExec(prev, step) /\ step.call.task \in TaskNames(d) /\ d.tasks[step.call.task].rbad # ""
        /\ RecSt(prev, step.call.task, step.call.route) # "retrying") =>
        ErrNames(step.obs, {k \in 1..Len(step.obs.errs) : step.obs.errs[k].cls = "expr"}, step.call.task, "none")
  /\ (IsCompletion(prev, step) /\ step.call.task \in TaskNames(d) /\ d.tasks[step.call.task].retry.on
        /\ d.tasks[step.call.task].retry.when.k = "bad" /\ prev.wf \in ActiveSt) =>
        ErrNames(step.obs, {k \in 1..Len(step.obs.errs) : step.obs.errs[k].cls = "expr"}, step.call.task, "none")
C11_failed(prev, step) ==
  NewErrs(prev, step.obs, "expr") # {} =>
     \/ step.obs.wf = "failed"
     \/ prev.wf = "canceled" /\ step.obs.wf = "canceled"
(* a workflow whose vars fail to render is failed from the start and says why *)
C11_recorded_vars(d, step) ==
  (step.call.op = "new" /\ \E i \in 1..Len(d.vars) : d.vars[i][2].k = "bad") =>
     step.obs.wf = "failed" /\ HasErr(step.obs, "expr")
(* an accepted rerun resumes the workflow only if preparing the re-executions raised no expression error  *)
(* (the retry policy of a task is evaluated when its new execution record is created): no expression    *)
(* error of a task the rerun covers may stand while the workflow is resuming                            *)
C11_rerun_failed(prev, step) ==
  (step.call.op = "rerun" /\ step.ret = "ok" /\ step.obs.wf # "failed") =>
     LET c == step.call
         covered == IF Len(c.arg) > 0 THEN {c.arg[i][1] : i \in 1..Len(c.arg)}
                    ELSE {prev.seq[i].id : i \in {j \in 1..Len(prev.seq) : prev.seq[j].term /\ prev.seq[j].st \in Abended}}
     IN \A i \in 1..Len(step.obs.errs) : step.obs.errs[i].cls = "expr" => step.obs.errs[i].task \notin covered
(* (an accepted rerun resumes the workflow; error entries of tasks it does not cover remain) *)
C11_no_offer_after(h1, step) == (step.obs.q /\ HasErr(step.obs, "expr") /\ ~h1.rerun) => step.obs.offers = << >>

(* C12: with-items. *)
ItemOffers(d, step) == {i \in 1..Len(step.obs.offers) : step.obs.offers[i].nitems >= 0}
InFlightOf(obs, t, r) == {k \in 1..Len(obs.infl) : obs.infl[k][1] = t /\ obs.infl[k][2] = r /\ obs.infl[k][3] >= 0}
WindowOf(d, t, n) == LET c == d.tasks[t].conc IN IF c = -1 THEN n ELSE IF c <= 0 THEN 1 ELSE c
StartedOf(h, obs, t, r) == IF RecSt(obs, t, r) = "retrying" THEN {}          \* a retry attempt offers every item again
                           ELSE IF OpenRec(obs, t, r) \/ (h.rerun /\ <<t, r>> \in h.rerunReq)
                           THEN ItsOf(h, Rid(t, r)).started ELSE {}
C12_shape(d, step) ==
  step.obs.q => \A i \in 1..Len(step.obs.offers) :
     LET o == step.obs.offers[i] IN
     /\ (o.id \in TaskNames(d) /\ HasItems(d, o.id)) <=> o.nitems >= 0
     /\ o.nitems >= 0 => (o.nitems = d.tasks[o.id].items /\ o.nact = Len(o.items))
C12_once(d, h1, step) ==
  step.obs.q => \A i \in ItemOffers(d, step) :
     LET o == step.obs.offers[i] IN
     \A k \in 1..Len(o.items) : o.items[k] \notin StartedOf(h1, step.obs, o.id, o.route)
C12_order(d, h1, step) ==
  step.obs.q => \A i \in ItemOffers(d, step) :
     LET o == step.obs.offers[i]
         rest == {x \in 0..(o.nitems - 1) : x \notin StartedOf(h1, step.obs, o.id, o.route)}
     IN \A k \in 1..Len(o.items) :
          /\ o.items[k] \in rest
          /\ Cardinality({x \in rest : x < o.items[k]}) = k - 1
C12_window(d, step) ==
  step.obs.q => \A i \in ItemOffers(d, step) :
     LET o == step.obs.offers[i] IN
     Len(o.items) + Cardinality(InFlightOf(step.obs, o.id, o.route)) <= WindowOf(d, o.id, o.nitems)
(* with nothing failed and neither pause nor cancel in effect the window is used in full *)
C12_all(d, h1, step) ==
  (step.obs.q /\ step.obs.wf = "running" /\ ~h1.pauseReq /\ ~h1.cancelReq) =>
    \A i \in ItemOffers(d, step) :
       LET o == step.obs.offers[i]
           k == Rid(o.id, o.route)
           started == StartedOf(h1, step.obs, o.id, o.route)
           rest == {x \in 0..(o.nitems - 1) : x \notin started}
           room == WindowOf(d, o.id, o.nitems) - Cardinality(InFlightOf(step.obs, o.id, o.route))
           anyBad == \E x \in DOMAIN ItsOf(h1, k).st : ItsOf(h1, k).st[x] \notin {"succeeded", "running"}
       IN /\ (OpenRec(step.obs, o.id, o.route) /\ ~anyBad) =>
               Len(o.items) = (IF Cardinality(rest) < room THEN Cardinality(rest) ELSE room)
          \* an execution that has not started yet is offered with its whole first window
          /\ ~HasRec(step.obs, o.id, o.route) =>
               Len(o.items) = (IF o.nitems < WindowOf(d, o.id, o.nitems) THEN o.nitems ELSE WindowOf(d, o.id, o.nitems))
\* a with-items execution that is due (justified, not started) is on offer, with at least one item
C12_due_offered(d, h1, step) ==
  (step.obs.q /\ step.obs.wf = "running" /\ ~h1.pauseReq /\ ~h1.cancelReq /\ ~h1.rerun) =>
    \A t \in TaskNames(d) :
       (HasItems(d, t) /\ d.tasks[t].items > 0 /\ h1.tok[t] > 0) =>
          \E i \in ItemOffers(d, step) : step.obs.offers[i].id = t /\ Len(step.obs.offers[i].items) > 0
C12_succ_iff(d, h1, prev, step) ==
  (IsCompletion(prev, step) /\ HasItems(d, step.call.task)) =>
     LET k == Rid(step.call.task, step.call.route)
         n == d.tasks[step.call.task].items
         it == ItsOf(h1, k)
         allOk == \A x \in 0..(n - 1) : x \in DOMAIN it.st /\ it.st[x] = "succeeded"
     IN RecSt(step.obs, step.call.task, step.call.route) = "succeeded" <=> allOk
C12_drain(d, prev, step) ==
  (IsCompletion(prev, step) /\ HasItems(d, step.call.task)) =>
     InFlightOf(step.obs, step.call.task, step.call.route) = {}
C12_hold(h1, step) ==
  (step.obs.q /\ (h1.pauseReq \/ h1.cancelReq) /\ step.obs.wf \in {"pausing", "paused", "canceling", "canceled"}) =>
     \A i \in 1..Len(step.obs.offers) : step.obs.offers[i].nitems < 0
C12_empty(d, prev, step) ==
  (IsCompletion(prev, step) /\ HasItems(d, step.call.task) /\ d.tasks[step.call.task].items = 0) =>
     RecSt(step.obs, step.call.task, step.call.route) = "succeeded"

(* C13: retry. *)
RetryCount(d, t) == IF t \notin TaskNames(d) THEN 0 ELSE IF d.tasks[t].retry.on THEN d.tasks[t].retry.count ELSE IF RetryCmd(d, t) THEN 3 ELSE 0
RetryWhenOf(d, t) ==
  IF d.tasks[t].retry.on THEN d.tasks[t].retry.when
  ELSE LET i == CHOOSE i \in 1..Len(d.tasks[t].next) :
                  \E j \in 1..Len(d.tasks[t].next[i].do) : d.tasks[t].next[i].do[j] = "retry"
       IN IF d.tasks[t].next[i].when.k = "always" THEN [k |-> "completed", v |-> "", n |-> 0] ELSE d.tasks[t].next[i].when
AttemptStatus(d, h1, step) ==                        \* status of the attempt that has just reported
  IF ~HasItems(d, step.call.task)
  THEN (CASE step.call.st = "succeeded" -> "succeeded" [] step.call.st \in Abended -> "failed" [] OTHER -> step.call.st)
  ELSE LET it == ItsOf(h1, Rid(step.call.task, step.call.route)) IN
       IF \E x \in DOMAIN it.st : it.st[x] \in Abended THEN "failed"
       ELSE IF \E x \in DOMAIN it.st : it.st[x] = "canceled" THEN "canceled" ELSE "succeeded"
C13_bound(d, h1, prev, step) ==
  IsNewExec(prev, step) => AttOf(h1, Rid(step.call.task, step.call.route)) <= RetryCount(d, step.call.task) + 1
C13_cond(d, h1, prev, step) ==
  (IsRetried(prev, step) /\ step.call.task \in TaskNames(d)) =>
     LET t  == step.call.task
         st == AttemptStatus(d, h1, step)
         w  == RetryWhenOf(d, t)
         rec == Rec(step.obs, t, step.call.route)
     IN /\ RetryCount(d, t) > 0
        /\ AttOf(h1, Rid(t, step.call.route)) <= RetryCount(d, t)
        /\ IF w.k = "default" THEN st \in Abended
           ELSE EvalCond(w, st, TaskResult(d, step), CtxOf(step.obs, rec.ctxin)) = "T"
C13_silent(prev, step) ==
  IsRetried(prev, step) =>
     LET rec == Rec(step.obs, step.call.task, step.call.route) IN
     /\ DOMAIN rec.next = {}
     /\ Len(step.obs.ctxs) = Len(prev.ctxs)
     /\ step.obs.wf = "failed" => prev.wf = "failed"
C13_delay(d, step) ==
  step.obs.q => \A i \in 1..Len(step.obs.offers) :
     LET o == step.obs.offers[i] IN
     IF RecSt(step.obs, o.id, o.route) = "retrying"
     THEN o.delay = (IF d.tasks[o.id].retry.on /\ d.tasks[o.id].retry.delay > 0 THEN d.tasks[o.id].retry.delay ELSE 0)
     ELSE o.id \in TaskNames(d) =>
             \/ o.delay = d.tasks[o.id].delay
             \* a staged entry that was re-staged by a retry and is offered again after a rerun keeps a zero delay
             \/ o.delay = 0 /\ HasRetry(d, o.id)

(* C15/C11 (soundness half): no internal error escapes an API call. *)
C15_internal_error(step) == step.ret = "ok" \/ (step.call.op \in {"req", "rerun"} /\ step.ret \in Rejections)

(* C17: rerun. *)
C17_accept(prev, step) ==
  (step.call.op = "rerun" /\ step.ret = "ok") =>
     /\ prev.wf \in Completed
     /\ \A i \in 1..Len(step.call.arg) : HasRec(prev, step.call.arg[i][1], step.call.arg[i][2])
(* a rerun request either is accepted or is rejected with one of the documented errors and no effect *)
C17_reject(prev, step) ==
  (step.call.op = "rerun" /\ step.ret # "ok") =>
     /\ step.ret \in Rejections
     /\ Persisted(step.obs) = Persisted(prev)
C17_resuming(step) == (step.call.op = "rerun" /\ step.ret = "ok") =>
                         \/ step.obs.wf = "resuming"
                         \* (preparing a re-execution raised an expression error: C11 owns that case)
                         \/ step.obs.wf = "failed" /\ HasErr(step.obs, "expr")
(* exactly the requested executions (and work that was still due) are offered; each requested one is *)
C17_exact(d, h0, h1, step) ==
  (step.obs.q /\ h1.rerun /\ step.obs.wf \in {"running", "resuming"}) =>
     /\ \A t \in TaskNames(d) : Cardinality(NewOffers(step, t)) <= h1.tok[t]
     /\ \A x \in h1.rerunReq :
          (~OpenRec(step.obs, x[1], x[2]) /\ RecSt(step.obs, x[1], x[2]) \in Completed
             /\ h0.resumedByRerun) =>
             \E i \in 1..Len(step.obs.offers) : step.obs.offers[i].id = x[1] /\ step.obs.offers[i].route = x[2]
C17_no_repeat(d, h0, prev, step) ==
  (h0.rerun /\ IsNewExec(prev, step)) => step.call.task \in TaskNames(d) /\ h0.tok[step.call.task] > 0
C17_not_stuck(h1, step) ==
  (h1.rerun /\ Quiescent(step)) => step.obs.wf \in Resting

(* C18: the execution history is append-only. *)
SeqId(obs) == [i \in 1..Len(obs.seq) |-> <<obs.seq[i].id, obs.seq[i].route>>]
C18_seq_prefix(prev, step)    == IsPrefix(SeqId(prev), SeqId(step.obs))
C18_ctxs_prefix(prev, step)   == IsPrefix(prev.ctxs, step.obs.ctxs)
C18_routes_prefix(prev, step) == IsPrefix(prev.routes, step.obs.routes)
(* a record appended by a rerun is not started yet (no status): it still follows its staged entry *)
C18_started_fixed(prev, step) ==
  \A i \in 1..Len(prev.seq) : (i <= Len(step.obs.seq) /\ prev.seq[i].st # "null") =>
     /\ prev.seq[i].ctxin = step.obs.seq[i].ctxin
     /\ prev.seq[i].prev  = step.obs.seq[i].prev
C18_decided_fixed(prev, step) ==
  \A i \in 1..Len(prev.seq) : (i <= Len(step.obs.seq) /\ prev.seq[i].st \in Completed) =>
     /\ prev.seq[i].st   = step.obs.seq[i].st
     /\ prev.seq[i].next = step.obs.seq[i].next

(* what an execution sees is fixed when it starts: the decisions it records and the deltas it publishes *)
(* when it completes are those of the definition evaluated on the context its own record lists        *)
C18_seen_fixed(d, h1, prev, step) ==
  (h1.compl # << >> /\ h1.compl[1].t \in TaskNames(d)) =>
     LET cm  == h1.compl[1]
         rec == Rec(step.obs, cm.t, cm.r)
         dx  == Decide(d, cm.t, cm.st, cm.res, CtxOf(step.obs, rec.ctxin))
     IN SubSeq(step.obs.ctxs, Len(prev.ctxs) + 1, Len(step.obs.ctxs)) \in {PubPerEdge(dx), PubPerTransition(dx)}

(* C19 (purity half): asking for next tasks twice gives the same answer and state. *)
C19_idem(step) == (step.call.op = "query" /\ step.ret = "ok") =>
                     step.offers2 = step.obs.offers /\ step.pers2 = TRUE

(* ---------- vacuity accounting ------------------------------------------------------------ *)
(* The situations in which the clauses above say something (their antecedents).  Trace.tla     *)
(* accumulates, per path, which of them occurred; a check run in which a situation its property *)
(* is about never occurred is a machinery failure, not a pass (harness/pipeline.py REQUIRED).   *)
TG(name, on) == IF on THEN {name} ELSE {}
Triggers(d, h0, h1, prev, step) ==
  LET o == step.obs
      offs == {i \in 1..Len(o.offers) : o.offers[i].id \in TaskNames(d)}
  IN
  TG("offer", o.q /\ o.offers # << >>) \cup
  TG("new_exec", IsNewExec(prev, step)) \cup
  TG("completion", IsCompletion(prev, step)) \cup
  TG("wf_succeeded", o.wf = "succeeded") \cup
  TG("wf_failed", o.wf = "failed") \cup
  TG("wf_paused_or_canceled", o.wf \in {"paused", "canceled"}) \cup
  TG("wf_pausing_or_canceling", o.wf \in {"pausing", "canceling"}) \cup
  TG("quiescent", Quiescent(step) /\ h1.started) \cup
  TG("after_terminal", h0.term # "none") \cup
  TG("offer_query_after_terminal", h0.term # "none" /\ o.q) \cup
  TG("report_after_terminal", h0.term # "none" /\ step.call.op = "report") \cup
  TG("request_rejected", step.call.op \in {"req", "rerun"} /\ step.ret # "ok") \cup
  TG("cleanup_due", o.q /\ o.wf = "failed" /\ h0.cleanupDue # {}) \cup
  TG("published", IsCompletion(prev, step) /\ Len(o.ctxs) > Len(prev.ctxs)) \cup
  TG("output_rendered", step.call.op = "render" /\ o.hasout) \cup
  TG("join_offer", o.q /\ \E i \in offs : IsJoin(d, o.offers[i].id)) \cup
  TG("join_started", IsNewExec(prev, step) /\ IsJoin(d, step.call.task)) \cup
  TG("partial_join_at_rest", Quiescent(step) /\ h1.started /\ PartialJoins(d, h1) # {}) \cup
  TG("held_by_pause", o.q /\ o.wf \in {"pausing", "paused"}) \cup
  TG("pause_requested", h1.pauseReq) \cup
  TG("resumed_query", o.q /\ h0.resumed) \cup
  TG("cancel_requested", h1.cancelReq) \cup
  TG("canceled_render", step.call.op = "render" /\ prev.wf = "canceled") \cup
  TG("expr_error", NewErrs(prev, o, "expr") # {}) \cup
  TG("item_offer", o.q /\ ItemOffers(d, step) # {}) \cup
  TG("item_window_partial", o.q /\ \E i \in ItemOffers(d, step) : o.offers[i].nact < o.offers[i].nitems) \cup
  TG("items_task_completed", IsCompletion(prev, step) /\ HasItems(d, step.call.task)) \cup
  TG("retried", IsRetried(prev, step)) \cup
  TG("retry_offer", o.q /\ \E i \in offs : RecSt(o, o.offers[i].id, o.offers[i].route) = "retrying") \cup
  TG("rerun_accepted", step.call.op = "rerun" /\ step.ret = "ok") \cup
  TG("rerun_rejected", step.call.op = "rerun" /\ step.ret # "ok") \cup
  TG("new_exec_after_rerun", h0.rerun /\ IsNewExec(prev, step)) \cup
  TG("quiescent_after_rerun", h1.rerun /\ Quiescent(step)) \cup
  TG("query_ok", step.call.op = "query" /\ step.ret = "ok") \cup
  TG("record_decided", \E i \in 1..Len(prev.seq) : prev.seq[i].st \in Completed)

(* ---------- the clause set ------------------------------------------------------------------ *)
F(name, ok) == IF ok THEN {} ELSE {name}
FP(prop, name, ok) == IF ok THEN {} ELSE {<<prop, name>>}

Failing(d, h0, h1, prev, step) ==
  FP("C01", "C01_offer_justified", C01_offer_justified(d, h1, step)) \cup
  FP("C01", "C01_offer_complete",  C01_offer_complete(d, h1, step)) \cup
  FP("C01", "C01_cleanup_offered", C01_cleanup_offered(d, h0, step)) \cup
  FP("C01", "C01_no_reoffer",      C01_no_reoffer(d, step)) \cup
  FP("C01", "C01_offer_known",     C01_offer_known(d, step)) \cup
  FP("C01", "C01_start_consumes",  C01_start_consumes(d, h0, prev, step)) \cup
  FP("C01", "C01_success_exact",   C01_success_exact(d, h1, step)) \cup
  FP("C01", "C01_status_truthful", C01_status_truthful(d, prev, step)) \cup
  FP("C01", "C01_decisions",       C01_decisions(d, h1, step)) \cup
  FP("C02", "C02_succeeded",       C02_succeeded(d, h1, step)) \cup
  FP("C02", "C02_rest_no_flight",  C02_rest_no_flight(step)) \cup
  FP("C02", "C02_ing_has_flight",  C02_ing_has_flight(step)) \cup
  FP("C02", "C02_doomed",          C02_doomed(h0, h1, step)) \cup
  FP("C03", "C03_rest",            C03_rest(h1, step)) \cup
  FP("C04", "C04_no_offer",        C04_no_offer(h0, step)) \cup
  FP("C04", "C04_absorb",          C04_absorb(h0, step)) \cup
  FP("C04", "C04_final",           C04_final(h0, prev, step)) \cup
  FP("C04", "C04_reject_pure",     C04_reject_pure(prev, step)) \cup
  FP("C04", "C04_forbidden_rejected", C04_forbidden_rejected(prev, step)) \cup
  FP("C04", "C04_reject_class",    C04_reject_class(step)) \cup
  FP("C06", "C06_ctx",             C06_ctx(d, h1, step)) \cup
  FP("C06", "C06_record",          C06_record(d, h0, h1, prev, step)) \cup
  FP("C06", "C06_eval",            C06_eval(d, h1, step)) \cup
  FP("C06", "C06_published",       C06_published(d, h1, prev, step)) \cup
  FP("C06", "C06_output",          C06_output(d, h1, prev, step)) \cup
  FP("C07", "C07_safe",            C07_safe(d, h0, prev, step)) \cup
  FP("C07", "C07_once",            C07_once(d, h1, step)) \cup
  FP("C07", "C07_unreachable",     C07_unreachable(d, h1, step)) \cup
  FP("C07", "C07_not_succeeded",   C07_not_succeeded(d, h1, step)) \cup
  FP("C09", "C09_hold",            C09_hold(step)) \cup
  FP("C09", "C09_paused_when_drained", C09_paused_when_drained(h1, step)) \cup
  FP("C09", "C09_resume_work",     C09_resume_work(d, h0, h1, step)) \cup
  FP("C10", "C10_no_offer",        C10_no_offer(h1, step)) \cup
  FP("C10", "C10_status",          C10_status(h1, step)) \cup
  FP("C10", "C10_output",          C10_output(d, prev, step)) \cup
  FP("C11", "C11_no_escape",       C11_no_escape(step)) \cup
  FP("C11", "C11_recorded_transition", C11_recorded_transition(d, h1, prev, step)) \cup
  FP("C11", "C11_recorded_render", C11_recorded_render(d, h0, prev, step)) \cup
  FP("C11", "C11_recorded_retry",  C11_recorded_retry(d, h1, prev, step)) \cup
  FP("C11", "C11_recorded_vars",   C11_recorded_vars(d, step)) \cup
  FP("C11", "C11_rerun_failed",    C11_rerun_failed(prev, step)) \cup
  FP("C11", "C11_failed",          C11_failed(prev, step)) \cup
  FP("C11", "C11_no_offer_after",  C11_no_offer_after(h1, step)) \cup
  FP("C12", "C12_shape",           C12_shape(d, step)) \cup
  FP("C12", "C12_once",            C12_once(d, h1, step)) \cup
  FP("C12", "C12_order",           C12_order(d, h1, step)) \cup
  FP("C12", "C12_window",          C12_window(d, step)) \cup
  FP("C12", "C12_all",             C12_all(d, h1, step)) \cup
  FP("C12", "C12_due_offered",     C12_due_offered(d, h1, step)) \cup
  FP("C12", "C12_succ_iff",        C12_succ_iff(d, h1, prev, step)) \cup
  FP("C12", "C12_hold",            C12_hold(h1, step)) \cup
  FP("C12", "C12_drain",           C12_drain(d, prev, step)) \cup
  FP("C12", "C12_empty",           C12_empty(d, prev, step)) \cup
  FP("C13", "C13_bound",           C13_bound(d, h1, prev, step)) \cup
  FP("C13", "C13_cond",            C13_cond(d, h1, prev, step)) \cup
  FP("C13", "C13_silent",          C13_silent(prev, step)) \cup
  FP("C13", "C13_delay",           C13_delay(d, step)) \cup
  FP("C15", "C15_internal_error",  C15_internal_error(step)) \cup
  FP("C17", "C17_accept",          C17_accept(prev, step)) \cup
  FP("C17", "C17_reject",          C17_reject(prev, step)) \cup
  FP("C17", "C17_resuming",        C17_resuming(step)) \cup
  FP("C17", "C17_exact",           C17_exact(d, h0, h1, step)) \cup
  FP("C17", "C17_no_repeat",       C17_no_repeat(d, h0, prev, step)) \cup
  FP("C17", "C17_not_stuck",       C17_not_stuck(h1, step)) \cup
  FP("C18", "C18_seq_prefix",      C18_seq_prefix(prev, step)) \cup
  FP("C18", "C18_ctxs_prefix",     C18_ctxs_prefix(prev, step)) \cup
  FP("C18", "C18_routes_prefix",   C18_routes_prefix(prev, step)) \cup
  FP("C18", "C18_started_fixed",   C18_started_fixed(prev, step)) \cup
  FP("C18", "C18_seen_fixed",      C18_seen_fixed(d, h1, prev, step)) \cup
  FP("C18", "C18_decided_fixed",   C18_decided_fixed(prev, step)) \cup
  FP("C19", "C19_idem",            C19_idem(step))

(* ---------- signatures of known findings (known_findings.json) ----------------------------- *)
(* S2: join: N with more than N inbound tasks; a further branch arrives after the join has     *)
(* started, the join is staged again and offered a second time.                               *)
KF_C07_late_arrival_after_fire(d, h1, step) ==
  /\ step.obs.q
  /\ \E i \in 1..Len(step.obs.offers) :
       LET o == step.obs.offers[i]
           g == GenOf(h1, Rid(o.id, o.route))
       IN /\ IsJoin(d, o.id)      \* (offered again after it finished, or while its execution is still open)
          /\ g.fired /\ g.started
          /\ Need(d, o.id) < Cardinality(Inbound(d, o.id))
          /\ Cardinality(g.arr) > Need(d, o.id)

(* S8b: the same late arrival while the join is a with-items task whose execution is open but   *)
(* has no item in flight (e.g. held by a pause): its items list is reset and items that already *)
(* ran are offered again.                                                                     *)
KF_C12_items_reset_by_late_arrival(d, h1, step) ==
  \/ /\ step.ret = "KeyError" /\ step.call.op \in {"report", "start"} /\ step.call.item >= 0
     /\ LET t == step.call.task  g == GenOf(h1, Rid(t, step.call.route)) IN
        /\ IsJoin(d, t) /\ g.fired /\ g.started
        /\ Need(d, t) < Cardinality(Inbound(d, t)) /\ Cardinality(g.arr) > Need(d, t)
  \/ /\ step.obs.q
     /\ \E i \in ItemOffers(d, step) :
          LET o == step.obs.offers[i]
              g == GenOf(h1, Rid(o.id, o.route))
          IN /\ IsJoin(d, o.id) /\ (OpenRec(step.obs, o.id, o.route) \/ h1.rerun)
             /\ g.fired /\ g.started
             /\ Need(d, o.id) < Cardinality(Inbound(d, o.id))
             /\ Cardinality(g.arr) > Need(d, o.id)
             /\ \E k \in 1..Len(o.items) : o.items[k] \in ItsOf(h1, Rid(o.id, o.route)).started

(* S1: at or below a join, a branch that merely inherited an older value of a variable arrives   *)
(* after the branch that published a newer one, and the older value wins.                        *)
KF_C06_inherited_delta_after_newer(d, h1, step) ==
  \/ /\ step.call.op = "render" /\ h1.tctx # << >>
     /\ LET m == MergeAll(h1.tctx, 1, << >>) IN
        \E k \in 1..Len(d.output) :
           LET o == d.output[k][1]  e == d.output[k][2] IN
           /\ e.k = "ctx" /\ e.v \in DOMAIN m /\ o \in DOMAIN step.obs.out
           /\ step.obs.out[o] # m[e.v].val
           /\ \E hv \in m[e.v].hist : hv[2] = step.obs.out[o]
  \/ /\ step.obs.q
     /\ \E i \in 1..Len(step.obs.offers) :
          LET o == step.obs.offers[i] IN
          /\ o.id \in TaskNames(d) /\ ~OpenRec(step.obs, o.id, o.route)
          /\ \E c \in Candidates(d, h1, o) :
               /\ DOMAIN c = DOMAIN o.ctx
               /\ \E v \in DOMAIN c : o.ctx[v] # c[v].val /\ \E hv \in c[v].hist : hv[2] = o.ctx[v]
               /\ \A v \in DOMAIN c : o.ctx[v] = c[v].val \/ \E hv \in c[v].hist : hv[2] = o.ctx[v]

(* S19 (trace level): a rerun was accepted although a failure of the first run that the request   *)
(* does not cover still stands (its error entry is still there)                                   *)
KF_C17_partial_rerun_succeeds(d, h1, step) ==
  /\ h1.rerun
  /\ \E i \in 1..Len(step.obs.errs) :
       /\ step.obs.errs[i].cls \in {"expr", "exec_failed"}
       /\ step.obs.errs[i].task \in TaskNames(d) \cup {"fail"}
       /\ \A x \in h1.rerunReq : x[1] # step.obs.errs[i].task

(* S14 (trace level): a join staged by the first run is offered after a rerun while an inbound    *)
(* task of it has been asked to run again and has not completed yet                               *)
KF_C17_first_run_side_effects(d, h1, step) ==
  /\ h1.rerun /\ step.obs.q
  /\ \E i \in 1..Len(step.obs.offers) :
       LET o == step.obs.offers[i] IN
       /\ IsJoin(d, o.id) /\ ~OpenRec(step.obs, o.id, o.route)
       /\ \E x \in h1.rerunReq : x[1] \in Inbound(d, o.id) /\ RecSt(step.obs, x[1], x[2]) \notin Completed

Signatures(d, h0, h1, prev, step) ==
  F("KF_C17_first_run_side_effects", ~KF_C17_first_run_side_effects(d, h1, step)) \cup
  F("KF_C17_partial_rerun_succeeds", ~KF_C17_partial_rerun_succeeds(d, h1, step)) \cup
  F("KF_C06_inherited_delta_after_newer", ~KF_C06_inherited_delta_after_newer(d, h1, step)) \cup
  F("KF_C07_late_arrival_after_fire", ~KF_C07_late_arrival_after_fire(d, h1, step)) \cup
  F("KF_C12_items_reset_by_late_arrival", ~KF_C12_items_reset_by_late_arrival(d, h1, step))

=============================================================================
