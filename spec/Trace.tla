------------------------------- MODULE Trace -------------------------------
(* Batch validation of trace trees recorded from the real conductor (harness/explore.py).    *)
(* One initial state per tree; a step of this spec moves from a node to one of its children,  *)
(* updates the Props history and prints one line per clause that is false there:              *)
(*     <<"V", tree id, node, clause>>                                                         *)
(* Descent stops below a node with a false clause (cascade policy, DESIGN.md 5.2).            *)
(* The harness checks that the number of distinct states equals the number of nodes it        *)
(* expects to be visited, so a tree that TLC could not walk is a machinery failure, not a     *)
(* silent pass.                                                                               *)
EXTENDS Props, Json, IOUtils

Batch == JsonDeserialize(IOEnv.TRACE_FILE)

VARIABLES tr, nd, h, bad, ex
vars == <<tr, nd, h, bad, ex>>

Obs0 == [wf |-> "null", seq |-> << >>, staged |-> << >>, ctxs |-> << >>, routes |-> << >>,
         ptr |-> << >>, errs |-> << >>, hasout |-> FALSE, out |-> << >>, reruns |-> << >>,
         infl |-> << >>, dorm |-> << >>, q |-> FALSE, offers |-> << >>]

Own(t) == {Batch[t].own[i] : i \in 1..Len(Batch[t].own)}
Known(t) == {Batch[t].known[i] : i \in 1..Len(Batch[t].known)}
Node(t, n)  == Batch[t].nodes[n]
ObsAt(t, n) == IF n = 0 THEN Obs0 ELSE Node(t, n).obs
KidsOf(t, n) == IF n = 0 THEN Batch[t].roots ELSE Node(t, n).kids

Init == /\ tr \in 1..Len(Batch)
        /\ nd = 0
        /\ h = HInit(Batch[tr].def)
        /\ bad = {}
        /\ ex = {}

Next == /\ bad = {}
        /\ \E i \in 1..Len(KidsOf(tr, nd)) :
             LET k    == KidsOf(tr, nd)[i]
                 d    == Batch[tr].def
                 step == Node(tr, k)
                 prev == ObsAt(tr, nd)
                 h1   == HStep(d, h, prev, step)
                 fs   == Failing(d, h, h1, prev, step)
                 ex1  == ex \cup Triggers(d, h, h1, prev, step)
             IN /\ nd' = k
                /\ ex' = ex1
                \* vacuity accounting: the situations met on the way to a leaf
                /\ (Node(tr, k).kids = << >>) => PrintT(<<"E", ex1>>)
                /\ tr' = tr
                /\ h' = HLatch(h1, step)
                \* the descent is cut by a false clause of the checked property, and below any step
                \* where a known finding fired (cascade policy)
                /\ bad' = {c \in fs : c[1] \in Own(tr)} \cup
                          (IF fs = {} THEN {} ELSE {<<"KF", x>> : x \in Signatures(d, h, h1, prev, step) \cap Known(tr)})
                /\ \A c \in fs : PrintT(<<"V", Batch[tr].tid, k, c[2]>>)
                /\ fs # {} => \A s \in Signatures(d, h, h1, prev, step) \cap Known(tr) : PrintT(<<"K", Batch[tr].tid, k, s>>)

Spec == Init /\ [][Next]_vars
=============================================================================
