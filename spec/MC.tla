--------------------------------- MODULE MC ---------------------------------
(* Spec B closed with the disciplined (eager) provider of DESIGN.md 2.2, the definition       *)
(* chosen in Init from a generated family, and the Props monitors evaluated on every API      *)
(* call.  One TLC step = one environment choice (a report or a control request) followed by    *)
(* the provider's reaction (query, start everything on offer, render on completion); the      *)
(* individual API calls inside it are folded through HStep / Failing one by one, exactly as    *)
(* Trace.tla does for recorded steps.                                                         *)
(*                                                                                            *)
(*   bad      : clauses false at some call of the last step  (INVARIANT NoViolation)          *)
(*   sched    : the choices so far (emitted at leaves for replay into the real conductor)     *)
EXTENDS Conductor, Props, Json, IOUtils

Defs == JsonDeserialize(IOEnv.DEFS_FILE)        \* sequence of definitions (harness/explore.py:tla_def)

CONSTANTS MaxPause, MaxCancel, MaxSteps, MaxRerun,
          Own,          \* property ids whose clauses count, e.g. {"C01","C07"}
          KnownSigs     \* signatures of known findings (Deviations = AsCode): reported, descent stops, no violation

Intended == {}                          \* Deviations <- Intended : the design with the open findings repaired

VARIABLES di, S, acts, accs, rendered, bud, h, bad, sched, lastobs
vars == <<di, S, acts, accs, rendered, bud, h, bad, sched, lastobs>>

D == Defs[di]

ActiveAct  == {"requested", "scheduled", "delayed", "running", "pausing", "canceling", "resuming"}
DormantAct == {"pending", "paused"}

TaskIndex(d, t) == Cardinality({u \in TaskNames(d) : d.rank[u] < d.rank[t]})
Token(d, t, i)  == IntV((TaskIndex(d, t) + 1) * 1000 + (i + 1))

InFlight(a) == {k \in DOMAIN a : a[k] \in ActiveAct}
Obs(s, a, q, offers) ==
  [wf |-> s.wf, seq |-> s.seq, staged |-> s.staged, ctxs |-> s.ctxs, routes |-> s.routes,
   ptr |-> s.ptr, errs |-> s.errs, hasout |-> s.hasout, out |-> s.out, reruns |-> s.reruns,
   infl |-> SetToSeq(InFlight(a)), dorm |-> SetToSeq({k \in DOMAIN a : a[k] \in DormantAct}),
   q |-> q, offers |-> offers]

Call(op, t, r, i, st, res, acc) == [op |-> op, task |-> t, route |-> r, item |-> i, st |-> st, res |-> res, acc |-> acc, arg |-> << >>]
StepRec(call, ret, obs) == [call |-> call, ret |-> ret, obs |-> obs, offers2 |-> obs.offers, pers2 |-> TRUE]

(* A "world" W = [S, acts, accs, steps]: the provider's calls append to steps. *)
DoStart(d, W, t, r, i) ==
  LET x  == UTS(d, W.S, t, r, IF i >= 0 THEN ItemEv(i, "running", <<2>>, <<2>>) ELSE ActionEv("running", <<2>>))
      fresh == RecIdxOf(W.S, t, r) = 0 \/ W.S.seq[RecIdxOf(W.S, t, r)].st \in (Completed \cup {"retrying"})
      a0 == IF fresh THEN [k \in {k \in DOMAIN W.acts : ~(k[1] = t /\ k[2] = r)} |-> W.acts[k]] ELSE W.acts
      a1 == IF x.ret = "ok" THEN (<<t, r, i>> :> "running") @@ a0 ELSE a0
      c1 == IF fresh THEN (<<t, r>> :> << >>) @@ W.accs ELSE W.accs
  IN [S |-> x.S, acts |-> a1, accs |-> c1,
      steps |-> Append(W.steps, StepRec(Call("start", t, r, i, "running", <<2>>, <<2>>), x.ret, Obs(x.S, a1, FALSE, << >>)))]

RECURSIVE StartItems(_, _, _, _, _)
StartItems(d, W, t, r, items) ==
  IF items = << >> THEN W ELSE StartItems(d, DoStart(d, W, t, r, Head(items)), t, r, Tail(items))

RECURSIVE StartOffers(_, _, _)
StartOffers(d, W, offers) ==
  IF offers = << >> THEN W
  ELSE LET o == Head(offers)
           W1 == IF o.nitems > 0 THEN StartItems(d, W, o.id, o.route, o.items)
                 ELSE IF o.nitems = 0
                      THEN (IF <<o.id, o.route, -1>> \in DOMAIN W.acts /\ W.acts[<<o.id, o.route, -1>>] \in ActiveAct
                            THEN W ELSE DoStart(d, W, o.id, o.route, -1))
                 ELSE DoStart(d, W, o.id, o.route, -1)
       IN StartOffers(d, W1, Tail(offers))

Settle(d, W) ==                                   \* query, then start everything on offer
  LET qr == Query(d, W.S)
      W1 == [W EXCEPT !.S = qr.S,
                      !.steps = Append(@, StepRec(Call("query", "none", -1, -1, "none", <<2>>, <<2>>), "ok",
                                                  Obs(qr.S, W.acts, TRUE, qr.offers)))]
  IN StartOffers(d, W1, qr.offers)

RenderIfDone(d, W, rnd) ==
  IF W.S.wf \in Completed      \* after every event once completed (rnd kept for the view only)
  THEN LET s1 == Render(d, W.S)
       IN [W EXCEPT !.S = s1, !.steps = Append(@, StepRec(Call("render", "none", -1, -1, "none", <<2>>, <<2>>), "ok",
                                                          Obs(s1, W.acts, FALSE, << >>)))]
  ELSE W

DoReport(d, W, t, r, i, st) ==
  LET done == st \in Completed
      empty == i < 0 /\ HasItems(d, t) /\ d.tasks[t].items = 0
      res  == IF ~done THEN <<2>> ELSE IF empty THEN <<1>> ELSE Token(d, t, i)
      acc0 == IF <<t, r>> \in DOMAIN W.accs THEN W.accs[<<t, r>>] ELSE << >>
      accP == IF i >= 0 /\ Len(acc0) <= i THEN acc0 \o [k \in 1..(i + 1 - Len(acc0)) |-> -1] ELSE acc0
      acc1 == IF i >= 0 /\ done THEN [accP EXCEPT ![i + 1] = res[2]] ELSE accP
      accV == IF i >= 0 THEN <<1>> \o acc1 ELSE <<2>>
      x    == UTS(d, W.S, t, r, IF i >= 0 THEN ItemEv(i, st, res, accV) ELSE ActionEv(st, res))
      a1   == (<<t, r, i>> :> st) @@ W.acts
      c1   == IF i >= 0 THEN (<<t, r>> :> acc1) @@ W.accs ELSE W.accs
  IN [S |-> x.S, acts |-> a1, accs |-> c1,
      steps |-> Append(W.steps, StepRec(Call("report", t, r, i, st, res, accV), x.ret, Obs(x.S, a1, FALSE, << >>)))]

DoRerun(d, W, reqs) ==
  LET x == Rerun(d, W.S, reqs)
      arg == [i \in 1..Len(reqs) |-> <<reqs[i][1], reqs[i][2], reqs[i][3]>>]
  IN [W EXCEPT !.S = x.S,
               !.steps = Append(@, StepRec([Call("rerun", "none", -1, -1, "none", <<2>>, <<2>>) EXCEPT !.arg = arg], x.ret,
                                           Obs(x.S, W.acts, FALSE, << >>)))]

DoReq(d, W, st) ==
  LET x == Req(d, W.S, st)
  IN [W EXCEPT !.S = x.S,
               !.steps = Append(@, StepRec(Call("req", "none", -1, -1, st, <<2>>, <<2>>), x.ret, Obs(x.S, W.acts, FALSE, << >>)))]

(* fold the Props monitor over the calls of one step *)
RECURSIVE Fold(_, _, _, _, _, _)
Fold(d, hh, prev, steps, k, acc) ==
  IF k > Len(steps) \/ acc # {} THEN [h |-> hh, bad |-> acc]
  ELSE LET st == steps[k]
           h1 == HStep(d, hh, prev, st)
           fs == Failing(d, hh, h1, prev, st)
           mine == {c \in fs : c[1] \in Own}
           sigs == IF mine = {} THEN {} ELSE Signatures(d, hh, h1, prev, st) \cap KnownSigs
           res  == IF sigs # {} THEN {<<"KF", s>> : s \in sigs} ELSE mine
       IN Fold(d, HLatch(h1, st), st.obs, steps, k + 1, res)

FateStatus(f) == CASE f = "s" -> "succeeded" [] f = "f" -> "failed" [] f = "t" -> "timeout"
                   [] f = "a" -> "abandoned" [] f = "c" -> "canceled" [] f = "p" -> "pending"
                   [] f = "P" -> "pausing" [] f = "C" -> "canceling" [] OTHER -> "succeeded"

ReportChoices(d, a) ==
  UNION {
    LET t == k[1] st == a[k] empty == k[3] < 0 /\ HasItems(d, t) /\ d.tasks[t].items = 0 IN
    IF st = "running"
    THEN {<<"rep", k[1], k[2], k[3], FateStatus(d.fates[t][j])>> :
             j \in {j \in 1..Len(d.fates[t]) : ~empty \/ d.fates[t][j] = "s"}}
    ELSE IF st = "pending" THEN {<<"rep", k[1], k[2], k[3], FateStatus(d.fates[t][j])>> :
                                    j \in {j \in 1..Len(d.fates[t]) : d.fates[t][j] \in {"s", "f"}}}
    ELSE IF st = "pausing" THEN {<<"rep", k[1], k[2], k[3], "paused">>}
    ELSE IF st = "paused" THEN {<<"rep", k[1], k[2], k[3], "resuming">>}
    ELSE IF st = "resuming" THEN {<<"rep", k[1], k[2], k[3], "running">>}
    ELSE IF st = "canceling" THEN {<<"rep", k[1], k[2], k[3], "canceled">>}
    ELSE {} : k \in DOMAIN a}

W0(s, a, c) == [S |-> s, acts |-> a, accs |-> c, steps |-> << >>]

Init ==
  /\ di \in 1..Len(Defs)
  /\ LET d  == Defs[di]
         s1 == New(d)
         w1 == [W0(s1, << >>, << >>) EXCEPT !.steps = <<StepRec(Call("new", "none", -1, -1, "none", <<2>>, <<2>>), "ok",
                                                                Obs(s1, << >>, FALSE, << >>))>>]
         w2 == DoReq(d, w1, "running")
         w3 == RenderIfDone(d, Settle(d, w2), FALSE)
         f  == Fold(d, HInit(d), Obs(S0, << >>, FALSE, << >>), w3.steps, 1, {})
     IN /\ S = w3.S /\ acts = w3.acts /\ accs = w3.accs
        /\ rendered = (w3.S.wf \in Completed)
        /\ h = f.h /\ bad = f.bad
        /\ lastobs = Last(w3.steps).obs
  /\ bud = [pause |-> MaxPause, resume |-> 0, cancel |-> MaxCancel, rerun |-> MaxRerun]
  /\ sched = << >>

Advance(W, ch, b1) ==
  LET d  == D
      W1 == RenderIfDone(d, Settle(d, W), rendered)
      f  == Fold(d, h, lastobs, W1.steps, 1, {})
  IN /\ S' = W1.S /\ acts' = W1.acts /\ accs' = W1.accs
     /\ rendered' = (rendered \/ W1.S.wf \in Completed)
     /\ h' = f.h /\ bad' = f.bad
     /\ lastobs' = Last(W1.steps).obs
     /\ bud' = b1
     /\ sched' = Append(sched, ch)
     /\ di' = di

Report == \E ch \in ReportChoices(D, acts) :
            Advance(DoReport(D, W0(S, acts, accs), ch[2], ch[3], ch[4], ch[5]), ch, bud)
Pause  == /\ bud.pause > 0 /\ S.wf \in {"running", "resuming"}
          /\ Advance(DoReq(D, W0(S, acts, accs), "pausing"), <<"req", "pausing">>,
                     [bud EXCEPT !.pause = @ - 1, !.resume = @ + 1])
Resume == /\ bud.resume > 0 /\ S.wf = "paused"
          /\ Advance(DoReq(D, W0(S, acts, accs), "resuming"), <<"req", "resuming">>, [bud EXCEPT !.resume = @ - 1])
Cancel == /\ bud.cancel > 0 /\ S.wf \in {"running", "pausing", "paused", "resuming"}
          /\ Advance(DoReq(D, W0(S, acts, accs), "canceling"), <<"req", "canceling">>, [bud EXCEPT !.cancel = @ - 1])

(* a default rerun, or the rerun of one failed execution, once the workflow is completed and at rest *)
FailedRecs == {<<S.seq[i].id, S.seq[i].route>> : i \in {j \in 1..Len(S.seq) :
                  S.seq[j].st \in Abended /\ S.seq[j].id \in TaskNames(D) /\ S.ptr[Rid(S.seq[j].id, S.seq[j].route)] = j - 1}}
RerunAct == /\ bud.rerun > 0 /\ S.wf \in Completed /\ InFlight(acts) = {}
            /\ \E reqs \in {<< >>} \cup {<< <<x[1], x[2], 0>> >> : x \in FailedRecs} :
                  /\ rendered' = FALSE
                  /\ LET d  == D
                         W1 == RenderIfDone(d, Settle(d, DoRerun(d, W0(S, acts, accs), reqs)), FALSE)
                         f  == Fold(d, h, lastobs, W1.steps, 1, {})
                     IN /\ S' = W1.S /\ acts' = W1.acts /\ accs' = W1.accs
                        /\ h' = f.h /\ bad' = f.bad /\ lastobs' = Last(W1.steps).obs
                        /\ bud' = [bud EXCEPT !.rerun = @ - 1]
                        /\ sched' = Append(sched, <<"rerun", reqs>>) /\ di' = di

Next == bad = {} /\ Len(sched) < MaxSteps /\ (Report \/ Pause \/ Resume \/ Cancel \/ RerunAct)

Spec == Init /\ [][Next]_vars

(* progress: with a generous step bound no behaviour is ever cut by the bound, i.e. every         *)
(* behaviour of the conductor with the provider comes to an end by itself (an offer that is      *)
(* re-issued forever, a retry that never exhausts, would hit the bound); together with C03_rest  *)
(* at the end this is "eventually resting".                                                     *)
BoundNotHit == Len(sched) < MaxSteps

NoViolation == \A c \in bad : c[1] = "KF"

(* leaves (no enabled choice) are printed for replay into the real conductor *)
Leaf == ReportChoices(D, acts) = {} /\ ~(bud.resume > 0 /\ S.wf = "paused")
        /\ ~(bud.pause > 0 /\ S.wf \in {"running", "resuming"})
        /\ ~(bud.cancel > 0 /\ S.wf \in {"running", "pausing", "paused", "resuming"})
        /\ ~(bud.rerun > 0 /\ S.wf \in Completed /\ InFlight(acts) = {})
Digest == [wf |-> S.wf, ids |-> [i \in 1..Len(S.seq) |-> <<S.seq[i].id, S.seq[i].route, S.seq[i].st>>],
           nctx |-> Len(S.ctxs), nerr |-> Len(S.errs), out |-> S.out, routes |-> S.routes,
           staged |-> [i \in 1..Len(S.staged) |-> <<S.staged[i].id, S.staged[i].route, S.staged[i].ready>>]]
EmitLeaves == (Leaf \/ Len(sched) >= MaxSteps) => PrintT(<<"L", ToJson([def |-> D.name, sched |-> sched, digest |-> Digest])>>)

View == <<di, S, acts, accs, rendered, bud, h, bad>>
=============================================================================
