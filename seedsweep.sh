#!/bin/bash
# usage: seedsweep.sh [lanes=4] [seed-id-glob='*']
# Regression sweep of the seeded changes: every /verif/seeded/<id>/patch.diff is applied to a scratch
# worktree of /repo (never to /repo itself), the checks named in meta.json "caught_by" are run against it
# (ORQUESTA_REPO), and the outcome is printed as  "<id> <check> caught|MISSED|error".  The worktrees are
# removed at the end; their evidence goes to a scratch directory.
LANES=${1:-4}; GLOB=${2:-*}
BASE=${TMPDIR:-/tmp}/verif_sweep_$$
mkdir -p $BASE
cd /verif
ls -d seeded/$GLOB/ 2>/dev/null | xargs -n1 basename > $BASE/all.txt
for i in $(seq 1 $LANES); do git -C /repo worktree add -q --detach $BASE/w$i HEAD || exit 2; done
lane() {
  i=$1; wt=$BASE/w$i
  awk -v n=$LANES -v k=$i 'NR % n == k % n' $BASE/all.txt | while read sid; do
    sd=/verif/seeded/$sid
    [ -f $sd/patch.diff ] || continue
    checks=$(/venv/bin/python -c "import json;print(' '.join(json.load(open('$sd/meta.json')).get('caught_by',[])))" 2>/dev/null)
    if ! git -C $wt apply $sd/patch.diff 2>/dev/null; then echo "$sid - error(patch does not apply)"; git -C $wt checkout -q -- .; continue; fi
    for c in $checks; do
      out=$(cd /verif && VERIF_EVIDENCE_DIR=$BASE/evidence ORQUESTA_REPO=$wt ./check $c --tier quick 2>&1)
      if echo "$out" | grep -q "^VIOLATION property=$c"; then echo "$sid $c caught ($(echo "$out" | grep "^VIOLATION" | head -1 | sed 's/.*clause=//'))"
      elif echo "$out" | grep -q "MACHINERY"; then echo "$sid $c error(machinery)"
      else echo "$sid $c MISSED"; fi
    done
    git -C $wt checkout -q -- .
  done
}
for i in $(seq 1 $LANES); do lane $i > $BASE/lane$i.out 2>&1 & done
wait
cat $BASE/lane*.out | sort
for i in $(seq 1 $LANES); do git -C /repo worktree remove --force $BASE/w$i; done
git -C /repo worktree prune
rm -rf $BASE
