#!/bin/bash
# usage: seedtest.sh <seed-dir-with patch.diff,demo.py> <check ids...>
# Confirms the seeded change (suite still green, demo fails with / passes without), then runs the
# given checks against /repo with the patch applied and reverts. Never commits anything in /repo.
set -u
SD=$1; shift
cd /repo || exit 2
if ! git diff --quiet; then echo "repo dirty"; exit 2; fi
echo "== demo on clean tree"; PYTHONPATH=/repo /venv/bin/python $SD/demo.py >/dev/null 2>&1; echo "clean demo rc=$?"
git apply $SD/patch.diff || { echo "patch does not apply"; git reset -q --hard HEAD; exit 2; }
git reset -q
echo "== suite with patch"; /venv/bin/python -m pytest -q -p no:cacheprovider -n 8 2>&1 | tail -1
echo "== demo with patch"; PYTHONPATH=/repo /venv/bin/python $SD/demo.py >/dev/null 2>&1; echo "patched demo rc=$?"
cd /verif
for c in "$@"; do
  echo "== check $c"; ./check $c --tier quick 2>&1 | cut -c1-160 | sort | uniq -c | sort -rn | head -6
done
git -C /repo checkout -- .
git -C /repo status --short | head -3
