#!/bin/bash
# usage: seedtest_wt.sh <seed-dir> <scratch-worktree-of-/repo> <check ids...>
# Same as seedtest.sh but against a scratch worktree (ORQUESTA_REPO), so that /repo is not touched while
# background runs use it. The worktree must be clean; it is left clean.
set -u
SD=$1; WT=$2; shift; shift
cd $WT || exit 2
if ! git diff --quiet; then echo "worktree dirty"; exit 2; fi
echo "== demo on clean tree"; PYTHONPATH=$WT /venv/bin/python $SD/demo.py >/dev/null 2>&1; echo "clean demo rc=$?"
git apply $SD/patch.diff || { echo "patch does not apply"; git checkout -- .; exit 2; }
echo "== suite with patch"; /venv/bin/python -m pytest -q -p no:cacheprovider -n 6 2>&1 | tail -1
echo "== demo with patch"; PYTHONPATH=$WT /venv/bin/python $SD/demo.py >/dev/null 2>&1; echo "patched demo rc=$?"
cd /verif
for c in "$@"; do
  echo "== check $c"; VERIF_EVIDENCE_DIR=${TMPDIR:-/tmp}/verif_seed_evidence ORQUESTA_REPO=$WT ./check $c --tier quick 2>&1 | cut -c1-200 | grep -E "VIOLATION|^OK|MACHINERY|divergen" | sort | uniq -c | sort -rn | head -8
done
git -C $WT checkout -- .
git -C $WT status --short | grep -v _seed | head -3
