#!/bin/sh
# Offline setup: nothing is built; verify the tools the checks need are present.
set -e
cd "$(dirname "$0")"
command -v java >/dev/null
test -f /opt/veriftools/tla/tla2tools.jar
/venv/bin/python -c "import sys; sys.path.insert(0,'/repo'); import orquesta.conducting, networkx"
mkdir -p out evidence
echo "setup ok"
